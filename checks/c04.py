"""C04 - on well-posed reference problems the solver finds the minimiser."""
import math

import numpy as np

from vlib import e2e, gen, mrun, truth
from vlib.oracles import V
from vlib.refs import qp

ID = "C04"
LEVEL = "exploration"
RULE = ("instances of the five reference families with default options: "
        "strictly convex quadratics (condition number <= 100, data O(1)) "
        "that are unconstrained, bound-constrained (exact minimiser by "
        "active-set enumeration over 3^n sets), linearly-equality-"
        "constrained (KKT system), one-variable convex quadratics over the "
        "interval cut out by bounds and linear inequalities (clamping), a "
        "linear objective over a Euclidean ball (closed form); n=1..5, x0 at "
        "distance 0.1..50 from the feasible region, minimiser interior / on "
        "a face / at a vertex.  Judged: status 0, success, harness "
        "feasibility, relative distance to the exact minimiser <= 1e-3 "
        "(quadratic families) / 1e-2 (linear over a ball).  Non-trivial = "
        "the minimiser has >=1 active constraint or x0 is infeasible; "
        "distinct = (family, n, active-set size, x0 side)")
RULE += ("  Also: equality families with a redundant but consistent row (sub-family; failures with exploding multipliers are the known finding KF-C04-redundant-equalities).")
RULE += (" Box sides between one and two initial radii wide with the minimiser next to one bound.")
RULE += (" Interval family: half-lines stated with lower limits next to rows with upper limits in one LinearConstraint.")
ASSUMPTIONS = [
    "thresholds: largest deviation pre-measured over 1600 instances 1e-5 "
    "(3.6e-4 for the ball family); the known failure modes give >= 1e-2",
    "numpy.linalg.solve on well-conditioned systems is the trusted base of "
    "the reference minimisers",
]
REQUIRED = {"instances": 300, "eval.post": 5000}
MIN_NONTRIVIAL = {"quick": 40, "thorough": 60}
PLAN = [("unc", 100, 1500), ("box", 160, 2400), ("eq", 140, 2100),
        ("interval", 160, 2400), ("ball", 120, 1800),
        ("interval_tie", 60, 900)]
TAU = {"unc": 1e-3, "box": 1e-3, "eq": 1e-3, "interval": 1e-3, "ball": 1e-2,
       "interval_tie": 1e-3}
WALL_BUDGET = {"quick": 1200, "thorough": 7200}


def cases(tier, seed):
    return e2e.case_list(PLAN, tier, seed)


def far(rng, n, dist):
    d = rng.standard_normal(n)
    return d / np.linalg.norm(d) * dist


def make(case):
    rng = e2e.rng_of(ID, case)
    fam = case["fam"]
    if fam == "interval_tie":
        # one variable; the solution sits on the end of the interval cut by a
        # linear inequality; x0 lies exactly on a second, looser inequality
        # with the SAME coefficient (tie in the working-set factorisation)
        qv = float(10 ** rng.uniform(-0.5, 1))
        sgn = float(rng.choice([-1.0, 1.0]))
        end = float(rng.uniform(-2, 2))          # active end of the interval
        cv = end + sgn * float(rng.uniform(0.3, 4))   # centre beyond the end
        u = rng.random()
        gap = float(rng.uniform(0.1, 1.0)) if u < 0.4 else (
            float(rng.choice([0.5, 1.0, 2.0, 3.0])) if u < 0.6
            else float(rng.uniform(1.0, 6.0)))
        sc = float(rng.choice([1.0, 1.0, 0.5, 2.0, rng.uniform(0.5, 2)]))
        rows = [[sgn * sc], [sgn * sc]]
        ubs = [sgn * sc * end, sgn * sc * (end + sgn * gap)]
        if rng.random() < 0.5:                   # the other end, far away
            other = end - sgn * float(rng.uniform(1, 5))
            rows.append([-sgn * float(rng.uniform(0.5, 2))])
            ubs.append(rows[-1][0] * other)
        if rng.random() < 0.5:
            order = rng.permutation(len(rows))
            rows = [rows[i] for i in order]
            ubs = [ubs[i] for i in order]
        x0 = np.array([end + sgn * gap])
        spec = {"n": 1, "obj": {"kind": "quad", "Q": [[qv]], "c": [cv],
                                "g": [0.0]}, "options": None,
                "con_kind": "lin", "x0": x0.tolist(),
                "lin": [{"A": rows, "lb": [-np.inf] * len(rows),
                         "ub": ubs}], "interval_mode": "tie"}
        return spec, np.array([end]), 1, "infeasible"
    n = 1 if fam == "interval" else int(rng.integers(1, 6))
    q = gen.spd(rng, n, cond=float(10 ** rng.uniform(0, 2)))
    c = rng.uniform(-2, 2, n)
    g = rng.uniform(-1, 1, n) * (rng.random() < 0.5)
    dist = float(10 ** rng.uniform(-1, math.log10(50)))
    spec = {"n": n, "obj": {"kind": "quad", "Q": q.tolist(), "c": c.tolist(),
                            "g": g.tolist()}, "options": None,
            "con_kind": "none"}
    active = 0
    side = "feasible"
    if fam == "unc":
        xs = qp.unconstrained(q, c, g)
        x0 = xs + far(rng, n, dist)
    elif fam == "box":
        xu = qp.unconstrained(q, c, g)
        lb = np.full(n, -np.inf)
        ub = np.full(n, np.inf)
        for i in range(n):
            mode = str(rng.choice(["inside", "cut_low", "cut_high", "free",
                                   "half", "near_far_side"]))
            w = float(rng.uniform(0.5, 3))
            if mode == "near_far_side":
                # a side of width in [1, 2) (between one and two initial
                # radii) with the minimiser inside, close to one bound; x0
                # will often sit outside or next to the opposite bound
                w = float(rng.uniform(1.0, 2.0))
                t = float(rng.uniform(0.02, 0.12))
                if rng.random() < 0.5:
                    lb[i], ub[i] = xu[i] - (1 - t) * w, xu[i] + t * w
                else:
                    lb[i], ub[i] = xu[i] - t * w, xu[i] + (1 - t) * w
            elif mode == "inside":
                lb[i], ub[i] = xu[i] - w, xu[i] + w
            elif mode == "cut_low":      # box above the unconstrained centre
                lb[i], ub[i] = xu[i] + 0.3 * w, xu[i] + 0.3 * w + w
            elif mode == "cut_high":
                lb[i], ub[i] = xu[i] - 0.3 * w - w, xu[i] - 0.3 * w
            elif mode == "half":
                lb[i] = xu[i] + float(rng.uniform(-1, 1))
        xs = qp.box(q, c, g, lb, ub)
        active = int(np.count_nonzero((xs <= lb + 1e-9) | (xs >= ub - 1e-9)))
        proj = np.clip(xs + far(rng, n, dist), lb, ub)
        if rng.random() < 0.6:
            x0 = xs + far(rng, n, dist)          # may be outside the box
            side = "outside" if np.any((x0 < lb) | (x0 > ub)) else "feasible"
        else:
            x0 = proj
        spec["bounds"] = {"lb": lb.tolist(), "ub": ub.tolist(),
                          "form": "Bounds"}
    elif fam == "eq":
        n = max(n, 2)
        q = gen.spd(rng, n, cond=float(10 ** rng.uniform(0, 2)))
        c = rng.uniform(-2, 2, n)
        g = rng.uniform(-1, 1, n) * (rng.random() < 0.5)
        spec["n"] = n
        spec["obj"] = {"kind": "quad", "Q": q.tolist(), "c": c.tolist(),
                       "g": g.tolist()}
        m = int(rng.integers(1, n))
        qq, _ = np.linalg.qr(rng.standard_normal((n, n)))
        a = (qq[:m] * rng.uniform(0.5, 2, (m, 1)))
        b = a @ rng.uniform(-2, 2, n)
        xs = qp.equality(q, c, g, a, b)
        active = m
        off = far(rng, n, dist)
        x0 = xs + off
        side = "infeasible"
        if rng.random() < 0.3:
            # a redundant but consistent row (a multiple of an earlier one),
            # not in the last position
            i = int(rng.integers(m))
            t = float(rng.choice([2.0, -1.0, 0.5]))
            pos = int(rng.integers(0, m))
            a = np.insert(a, pos, t * a[i], axis=0)
            b = np.insert(b, pos, t * b[i])
        spec["lin"] = [{"A": a.tolist(), "lb": b.tolist(), "ub": b.tolist()}]
        spec["con_kind"] = "lin"
    elif fam == "interval":
        qv, cv, gv = float(q[0, 0]), float(c[0]), float(g[0])
        xu = cv - gv / qv
        lo_b, hi_b = -np.inf, np.inf
        lo, hi = -np.inf, np.inf
        where = str(rng.choice(["interior", "left", "right"]))
        w = float(rng.uniform(0.5, 3))
        if where == "interior":
            lo, hi = xu - w, xu + w
        elif where == "left":        # interval to the right of the centre
            lo, hi = xu + 0.4 * w, xu + 0.4 * w + w
        else:
            lo, hi = xu - 0.4 * w - w, xu - 0.4 * w
        # split the interval between bounds and linear inequalities
        rows, lbs, ubs = [], [], []
        lb1, ub1 = -np.inf, np.inf
        mode = str(rng.choice(["bounds+lin", "lin", "bounds", "mixed"]))
        if mode == "bounds":
            lb1, ub1 = lo, hi
        elif mode == "lin":
            s1, s2 = float(rng.uniform(0.5, 2)), float(rng.uniform(0.5, 2))
            rows = [[s1], [-s2]]
            lbs = [-np.inf, -np.inf]
            ubs = [s1 * hi, -s2 * lo]
        elif mode == "bounds+lin":
            # bounds looser than the linear inequalities
            lb1, ub1 = lo - float(rng.uniform(0.1, 2)), hi + float(
                rng.uniform(0.1, 2))
            s1, s2 = float(rng.uniform(0.5, 2)), float(rng.uniform(0.5, 2))
            rows = [[s1], [-s2]]
            lbs = [-np.inf, -np.inf]
            ubs = [s1 * hi, -s2 * lo]
        else:
            lb1 = lo
            s1 = float(rng.uniform(0.5, 2))
            rows = [[s1]]
            lbs = [-np.inf]
            ubs = [s1 * hi]
        xs = np.array([qp.interval_1d(qv, cv, gv, lo, hi)])
        active = int(xs[0] <= lo + 1e-9 or xs[0] >= hi - 1e-9)
        sgn = float(rng.choice([-1.0, 1.0]))
        x0 = np.array([xs[0] + sgn * dist])
        if rng.random() < 0.25 and mode in ("lin", "bounds+lin", "mixed"):
            # x0 exactly ON the boundary of a redundant, looser linear
            # inequality (active at x0, not at the solution); only on a side
            # where x0 stays inside the bounds (it is projected otherwise)
            gap = float(rng.uniform(0.5, 3))
            sides = []
            if not np.isfinite(ub1) or hi + gap <= ub1:
                sides.append("right")
            if not np.isfinite(lb1) or lo - gap >= lb1:
                sides.append("left")
            if sides:
                side_ = str(rng.choice(sides))
                s3 = float(rng.choice([0.5, 1.0, 2.0]))
                if rng.random() < 0.6 and rows:
                    # same scaling as the row that cuts this side (ties in
                    # the working-set factorisation)
                    s3 = abs(float(rows[0][0])) if side_ == "right" \
                        else abs(float(rows[-1][0]))
                if side_ == "right":
                    far_pt = hi + gap
                    rows.append([s3]); lbs.append(-np.inf)
                    ubs.append(s3 * far_pt)
                else:
                    far_pt = lo - gap
                    rows.append([-s3]); lbs.append(-np.inf)
                    ubs.append(-s3 * far_pt)
                x0 = np.array([far_pt])
                mode += "+x0_on_redundant_row"
        side = "infeasible" if (x0[0] < lo or x0[0] > hi) else "feasible"
        if np.isfinite(lb1) or np.isfinite(ub1):
            spec["bounds"] = {"lb": [lb1], "ub": [ub1], "form": "Bounds"}
        if rows and rng.random() < 0.5:
            # the same half-lines stated the other way round: a x <= b as
            # (-a) x >= -b, so that ONE LinearConstraint mixes rows that
            # have only a lower limit with rows that have only an upper one
            flipped = 0
            for k in range(len(rows)):
                if rng.random() < 0.5:
                    rows[k] = [-rows[k][0]]
                    lbs[k], ubs[k] = -ubs[k], np.inf
                    flipped += 1
            if flipped:
                mode += "+lower_limits"
        if rows:
            spec["lin"] = [{"A": rows, "lb": lbs, "ub": ubs}]
            spec["con_kind"] = "lin"
        spec["interval_mode"] = mode
    else:  # ball
        gvec = rng.uniform(-1, 1, n)
        if np.linalg.norm(gvec) < 0.2:
            gvec[0] = 1.0
        cc = rng.uniform(-2, 2, n)
        r = float(rng.uniform(0.5, 3))
        xs = qp.linear_ball(gvec, cc, r)
        active = 1
        d = rng.standard_normal(n)
        d /= np.linalg.norm(d)
        inside = rng.random() < 0.3
        x0 = cc + d * (r * rng.random() if inside else r + dist)
        side = "feasible" if inside else "infeasible"
        spec["obj"] = {"kind": "lin", "g": gvec.tolist()}
        spec["nl"] = [{"comps": [{"kind": "ball", "c": cc.tolist(), "r": r}],
                       "form": "nlc", "lb": [-np.inf], "ub": [0.0]}]
        spec["con_kind"] = "nl"
    spec["x0"] = np.asarray(x0, dtype=float).tolist()
    return spec, np.asarray(xs, dtype=float), active, side


def least_violation(rec):
    """Smallest true violation over all evaluated points of a run."""
    from vlib import oracles
    vals = [r["v"] for r in oracles.eval_table(rec)
            if r["ok"] and r["v"] is not None and not math.isnan(r["v"])]
    return min(vals) if vals else math.inf


def run_case(case):
    spec, xs, active, side = make(case)
    fam = case["fam"]
    zero_normal = {"n": 0}

    def on_sub(run, name, args, kwargs, out):
        if name == "normal_byrd_omojokun" and not np.any(out != 0.0):
            aub, bub, aeq, beq = args[:4]
            infeas = (np.size(bub) and np.any(np.asarray(bub) < 0)) or (
                np.size(beq) and np.any(np.asarray(beq) != 0))
            if infeas:
                zero_normal["n"] += 1

    lm_max = {"v": 0.0}

    def on_mut(run, tr, what, args, out):
        if what == "set_multipliers":
            for nm in ("_lm_linear_eq", "_lm_linear_ub", "_lm_nonlinear_eq",
                       "_lm_nonlinear_ub"):
                a = getattr(tr, nm, None)
                if a is not None and np.size(a):
                    lm_max["v"] = max(lm_max["v"], float(np.max(np.abs(a))))

    def setup(r, rec):
        r.on("sub", on_sub)
        r.on("tr.mut", on_mut)

    rank_deficient = False
    for lc in spec.get("lin", []):
        a_ = np.asarray(lc["A"], dtype=float)
        if a_.size and np.linalg.matrix_rank(a_) < a_.shape[0]:
            rank_deficient = True
    rec = mrun.run(spec, setup=setup)
    viols = []
    counts = e2e.base_counts(rec)
    counts["instances"] = 1
    dev = None
    if rec.exc is not None:
        viols.append(V("exception", f"{fam}: minimize raised "
                                    f"{type(rec.exc).__name__}",
                       mechanism="exception"))
    else:
        res = rec.res
        x = np.asarray(res.x, dtype=float)
        dev = float(np.linalg.norm(x - xs) / max(1.0, np.linalg.norm(xs)))
        tv, slack = rec.true_maxcv(x)
        tol = math.sqrt(np.finfo(float).eps)
        mech = "plain"
        if rank_deficient and lm_max["v"] > 1e10:
            # redundant (consistent) equality rows: the least-squares
            # multipliers pick up an arbitrary null-space component of size
            # 1/eps, the penalty parameter follows them
            mech = "multipliers_explode_redundant_rows"
        elif zero_normal["n"] > 0 and dev > TAU[fam]:
            mech = "normal_step_zero_from_infeasible_origin"
        elif res.status in (5, 6) and dev <= TAU[fam]:
            mech = "budget_exhausted_at_accurate_point"
        elif (res.status == 0 and dev <= TAU[fam] and zero_normal["n"] > 0
              and tol < least_violation(rec) <= 1e-6):
            # accurate point, but a linear residual of 1e-8..1e-6 was never
            # removed: the normal solver returned the zero step from a
            # (slightly) infeasible centre
            mech = "residual_below_normal_step_floor"
        bad = []
        if res.status != 0:
            bad.append(f"status {res.status}")
        if not res.success:
            bad.append("success False")
        if tv is None or not (tv <= tol + 1e3 * (slack or 0.0)):
            bad.append(f"true violation {tv}")
        if dev > TAU[fam]:
            bad.append(f"relative distance to the exact minimiser {dev:.3g} "
                       f"> {TAU[fam]}")
        if bad:
            viols.append(V("reference_problem_failed",
                           f"{fam} instance (n={spec['n']}, active={active}, "
                           f"x0 {side}): " + "; ".join(bad) +
                           f" [nfev={res.nfev}, x={x.tolist()}, "
                           f"x*={xs.tolist()}]",
                           mechanism=mech, family=fam, deviation=dev,
                           status=int(res.status), nfev=int(res.nfev),
                           zero_normal_steps=zero_normal["n"],
                           largest_multiplier=lm_max["v"]))
    nt = None
    if active >= 1 or side != "feasible":
        nt = f"{fam}|n{spec['n']}|a{active}|{side}|" + str(
            spec.get("interval_mode", ""))
    sample = None
    if case["idx"] < 1:
        sample = {"family": fam, "spec": e2e.spec_brief(spec),
                  "exact_minimiser": xs, "outcome": e2e.brief(rec),
                  "relative_distance": dev}
    return e2e.record(case, e2e.attach(viols, spec, rec), nt=nt,
                      tags=["fam:" + fam], counts=counts, sample=sample,
                      maxes={"dev_" + fam: dev or 0.0})
