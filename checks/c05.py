"""C05 - evaluation / iteration budgets respected and counted truthfully."""
import numpy as np

from vlib import e2e, gen, mrun, oracles

ID = "C05"
LEVEL = "exploration"
RULE = ("problems with/without objective, constrained or not, with maxfev in "
        "{1,2,npt-1,npt,npt+1,npt+2,random}, maxiter in {1,2,..}, every "
        "admissible nb_points, history_size in {1,2,E-1,E,E+1,inf}, all "
        "terminations; non-trivial = the budget is the binding reason for "
        "stopping or the history is truncated; distinct = (binding, fun "
        "present, constraint kind, n, budget position relative to npt)")
RULE += ("  Also: budgets placed by replay exactly on an iteration / evaluation that takes a second-order correction.")
RULE += (" No constraint function is called more often than the problem is evaluated.")
ASSUMPTIONS = [
    "an evaluation = one Problem.__call__ (tap) = one objective call (spy); "
    "both are counted and cross-checked",
    "history violations compared with the harness value within rounding",
]
REQUIRED = {"eval.post": 1000, "checked_results": 200, "fun_none_runs": 20,
            "history_checked": 50}
MIN_NONTRIVIAL = {"quick": 20, "thorough": 100}
PLAN = [("budget", 1200, 16000), ("history", 500, 6000), ("general", 300, 4000), ("soc", 250, 3000),
        ("cross", 300, 6000)]


def cases(tier, seed):
    return e2e.case_list(PLAN, tier, seed)


def make_spec(case):
    rng = e2e.rng_of(ID, case)
    fam = case["fam"]
    if fam == "general":
        return gen.general(rng, fun_none=0.25, maxfev=(5, 120))
    con = str(rng.choice(["none", "lin", "nl", "both"]))
    spec = gen.general(rng, con=con, fun_none=0.3, maxfev=(30, 60),
                       opt_allow=("scale", "nb_points", "radius"))
    n = spec["n"]
    nred = n
    if spec.get("bounds"):
        nred = max(gen.reduced_dim(spec["bounds"]["lb"],
                                   spec["bounds"]["ub"]), 1)
    o = spec["options"]
    if "nb_points" in o:
        o["nb_points"] = int(rng.integers(nred + 1,
                                          (nred + 1) * (nred + 2) // 2 + 1))
    npt = o.get("nb_points", 2 * nred + 1)
    if fam == "budget":
        pos = str(rng.choice(["1", "2", "npt-1", "npt", "npt+1", "npt+2",
                              "rand", "iter"]))
        val = {"1": 1, "2": 2, "npt-1": max(npt - 1, 1), "npt": npt,
               "npt+1": npt + 1, "npt+2": npt + 2,
               "rand": int(rng.integers(1, 60)), "iter": 200}[pos]
        o["maxfev"] = int(val)
        if pos == "iter":
            o["maxiter"] = int(rng.integers(1, 8))
        spec["budget_pos"] = pos
        if rng.random() < 0.3:
            o["store_history"] = True
    else:
        o["store_history"] = True
        o["maxfev"] = int(rng.integers(3, 50))
        e = o["maxfev"]
        hs = str(rng.choice(["1", "2", "E-1", "E", "E+1", "inf", "rand"]))
        if hs != "inf":
            o["history_size"] = int(max(1, {"1": 1, "2": 2, "E-1": e - 1,
                                            "E": e, "E+1": e + 1,
                                            "rand": int(rng.integers(1, 60))
                                            }[hs]))
        spec["budget_pos"] = "hist:" + hs
    return spec


def soc_iteration_spec(case):
    """Dry run of a problem rich in second-order-correction steps, recording
    at which ITERATION each correction was taken; the rerun places maxiter
    exactly there (and, in other cases, maxfev on the corrected evaluation)."""
    from checks import c01
    rng = e2e.rng_of(ID, case)
    spec = c01.make_spec({"id": case["id"], "fam": "soc", "idx": case["idx"],
                          "seed": case["seed"]})
    state = {"it": 0, "soc_it": [], "soc_ev": []}

    def on_tr(run, tr, args):
        state["it"] += 1

    def on_soc(run, tr, args, out):
        if np.linalg.norm(np.asarray(out, dtype=float)) > 0:
            state["soc_it"].append(state["it"])
            state["soc_ev"].append(len(run.evals) + 1)

    def setup(r, rec):
        r.on("step.tr.pre", on_tr)
        r.on("step.soc.post", on_soc)

    dry = mrun.run(spec, setup=setup)
    if dry.res is None or not state["soc_it"]:
        return None
    j = int(rng.integers(len(state["soc_it"])))
    spec = dict(spec)
    spec["options"] = dict(spec["options"])
    if rng.random() < 0.6:
        spec["options"]["maxiter"] = int(state["soc_it"][j])
        spec["options"]["maxfev"] = 10 ** 4
        spec["budget_pos"] = "maxiter@soc"
    else:
        spec["options"]["maxfev"] = int(state["soc_ev"][j])
        spec["budget_pos"] = "maxfev@soc"
    return spec


def run_case(case):
    if case["fam"] == "cross":
        spec, _src = e2e.cross_spec(ID, case)
    elif case["fam"] == "soc":
        spec = soc_iteration_spec(case)
        if spec is None:
            return e2e.record(case, [], tags=["fam:soc", "no_soc"],
                              skipped=True)
    else:
        spec = make_spec(case)
    rec = mrun.run(spec)
    viols, info = oracles.o_c05(rec)
    counts = e2e.base_counts(rec)
    tags = ["fam:" + case["fam"]]
    if rec.res is not None:
        counts["checked_results"] = 1
        tags.append("status:%s" % rec.res.status)
        if spec["obj"]["kind"] == "none":
            counts["fun_none_runs"] = 1
        if "fun_history" in rec.res:
            counts["history_checked"] = 1
    nt = None
    if info.get("binding"):
        nt = "|".join([info["binding"], spec["obj"]["kind"] == "none" and
                       "nofun" or "fun", spec.get("con_kind", "?"),
                       "n%d" % spec["n"], str(spec.get("budget_pos"))])
    sample = None
    if case["idx"] < 2:
        sample = {"spec": e2e.spec_brief(spec), "outcome": e2e.brief(rec),
                  "evaluations_observed": info.get("E"),
                  "binding": info.get("binding")}
    return e2e.record(case, e2e.attach(viols, spec, rec), nt=nt, tags=tags,
                      counts=counts, sample=sample)
