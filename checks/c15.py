"""C15 - subproblem solvers always return admissible steps."""
from vlib import e2e, subdrive

ID = "C15"
LEVEL = "exploration"
RULE = ("icontract postconditions on the five public subsolvers, evaluated "
        "(i) on hostile direct fuzz: n=1..6, gradient/Hessian/bounds/radius "
        "magnitudes over 12 decades independently, zero gradient(s), bounds "
        "active at the origin, infinite bounds, box inside the ball, "
        "SPD/indefinite/rank-one/zero/negative-definite Hessians, duplicated "
        "/ zero constraint rows, b_ub=0 rows, improve_tcg on and off, zero "
        "spider directions; (ii) on every subproblem posed by the solver in "
        "real runs.  Non-trivial = a degeneracy present or the step ends on a "
        "bound / the ball; distinct = (solver, degeneracy set, termination "
        "side)")
RULE += ("  Structured families added to the fuzz: orth_negcurv, near_stationary_1d, exact_ties, bound ties inside the ball, near_boundary_restart, ub_tr_tie, normal_tight, ub_reach_window.")
RULE += (" Family normal_dominated_gradient (gradient dominated by 6..12 decades by an active constraint normal).")
ASSUMPTIONS = [
    "bounds checked exactly; radius / inequality / null-space excess judged "
    "relative to the data: held <= 1e-9 (largest seen on 3.2e5 calibrating "
    "inputs: 4.1e-11), violation > 1e-6, gray between",
    "the origin is feasible for the subproblem (the solvers' documented "
    "precondition); rows infeasible at the origin are not judged",
]
REQUIRED = {"subproblems": 20000, "postconditions": 20000,
            "solver_posed_subproblems": 2000}
MIN_NONTRIVIAL = {"quick": 200, "thorough": 1000}
PLAN = [("fuzz", 64, 1600), ("real", 300, 4000), ("ulp_ties", 16, 200),
        ("repotests", 1, 1)]
PROP = "C15"


def cases(tier, seed):
    return e2e.case_list(PLAN, tier, seed)


worker_init = subdrive.worker_init


def run_case(case):
    if case["fam"] == "fuzz":
        return subdrive.fuzz_case(case, PROP)
    if case["fam"] == "ulp_ties":
        return subdrive.ulp_case(case, PROP)
    if case["fam"] == "repotests":
        from vlib import repotests
        viols, counts = repotests.run(PROP)
        return e2e.record(case, viols, tags=["fam:repotests"], counts=counts,
                          nt="repotests")
    return subdrive.real_case(case, PROP)
