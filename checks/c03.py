"""C03 - the returned point is the best point evaluated, feasible first.

Two monitors sharing the reference model vlib/refs/filt.py:
 * component level: a real cobyqa Problem is fed prescribed (objective,
   violation) sequences and best_eval(penalty) is compared after every fed
   evaluation with the model applied to the whole history;
 * end to end: evaluation log + final penalty vs the returned point on
   ordinary and NaN/inf-injected runs."""
import math

import numpy as np

from vlib import e2e, gen, mrun, oracles, ctx
from vlib.refs import filt

ID = "C03"
LEVEL = "exploration"
RULE = ("(a) fed sequences of 2..14 (objective, violation) pairs drawn from a "
        "small value lattice {NaN, +-inf, 0, tol, nextafter(tol), small, "
        "large, ties} with penalty in {0, small, large} and filter_size in "
        "{1,2,3,inf}; best_eval compared with the model after every "
        "evaluation; (b) real runs (ordinary and NaN/inf-injected: NaN at x0, "
        "NaN half-spaces, ...).  Non-trivial = history with a tie, a NaN/inf, "
        "a value exactly at the tolerance or an eviction; distinct = "
        "canonical pattern of the (f, v) sequence (a) / spec signature + "
        "clause (b)")
RULE += ("  Also (b'): non-default feasibility tolerances (0, 1e-14, 1e-3) on problems whose solution lies on a curved constraint approached from outside; knife-edge judged with each point's own rounding slack.")
RULE += (' Family e2e_soc: early-stopped runs rich in second-order corrections; the returned point is judged with its TRUE values and must be a point that was evaluated.')
RULE += (" e2e_tol also with scale=True on wide inactive boxes (the tolerance is not rescaled).")
ASSUMPTIONS = [
    "only the clauses the statement fixes are demanded (S1 feasible-first "
    "least objective, S2 least merit + not dominated + NaN never preferred, "
    "S3/S4 free); tie-break between identical pairs not demanded",
    "finite filter_size: the rule is applied to the retained set modelled as "
    "documented (non-dominated insertion, dominated removal, FIFO)",
]
REQUIRED = {"fed_evaluations": 5000, "best_eval_checks": 5000,
            "e2e_runs_judged": 100}
MIN_NONTRIVIAL = {"quick": 100, "thorough": 500}
PLAN = [("fed", 1600, 24000), ("e2e", 500, 8000), ("e2e_nan", 500, 8000),
        ("e2e_tol", 600, 6000), ("e2e_soc", 300, 4000),
        ("cross", 300, 6000)]

TOL = 1e-8


def cases(tier, seed):
    return e2e.case_list(PLAN, tier, seed)


def _lattice(rng):
    tv = float(np.nextafter(TOL, 1.0))
    fvals = [math.nan, math.inf, -math.inf, 0.0, 1.0, 1.0, 2.0, -1.0, 0.5,
             1e200, -1e200, float(rng.normal())]
    vvals = [math.nan, math.inf, 0.0, 0.0, TOL, tv, TOL / 2, 1e-3, 1.0, 1.0,
             2.0, 0.5, float(abs(rng.normal()))]
    return fvals, vvals


def _canon(hist):
    def c(t):
        if math.isnan(t):
            return "n"
        if math.isinf(t):
            return "I" if t > 0 else "i"
        return None
    fs = sorted(set(f for f, v in hist if c(f) is None))
    vs = sorted(set(v for f, v in hist if c(v) is None))
    return ";".join((c(f) or str(fs.index(f))) + "," +
                    (c(v) or ("T" if v == TOL else str(vs.index(v))))
                    for f, v in hist)


def run_fed(case):
    from scipy.optimize import Bounds, NonlinearConstraint
    from cobyqa.problem import (ObjectiveFunction, BoundConstraints,
                                LinearConstraints, NonlinearConstraints,
                                Problem)
    rng = e2e.rng_of(ID, case)
    fvals, vvals = _lattice(rng)
    length = int(rng.integers(2, 15))
    hist = [(fvals[int(rng.integers(len(fvals)))],
             vvals[int(rng.integers(len(vvals)))]) for _ in range(length)]
    pen = [0.0, 1e-3, 1.0, 1e6][int(rng.integers(4))]
    fsize = [1, 2, 3, 2**62, 2**62, 2**62][int(rng.integers(6))]
    table = {float(k + 1): hv for k, hv in enumerate(hist)}

    def fun(x):
        return table[float(x[0])][0]

    def con(x):
        return np.array([table[float(x[0])][1]])

    obj = ObjectiveFunction(fun, False, False)
    bounds = BoundConstraints(Bounds([-np.inf], [np.inf]))
    lin = LinearConstraints([], 1, False)
    nl = NonlinearConstraints([NonlinearConstraint(con, -np.inf, 0.0)],
                              False, False)
    pb = Problem(obj, [1.0], bounds, lin, nl, None, TOL, False, False, 1,
                 fsize, False)
    viols = []
    checks = 0
    evicted = False
    clauses = set()
    for k in range(length):
        try:
            pb(np.array([float(k + 1)]), pen)
            x, f, v = pb.best_eval(pen)
        except BaseException as exc:  # noqa: BLE001
            viols.append(oracles.V(
                "component_exception",
                f"Problem raised {type(exc).__name__}: {str(exc)[:150]} "
                f"after feeding {hist[:k + 1]}",
                mechanism="exc:" + type(exc).__name__))
            break
        sofar = hist[:k + 1]
        kept = filt.simulate_filter(sofar, fsize)
        if len(kept) < len(sofar) and fsize < 2**62:
            model_hist = [sofar[i] for i in kept]
            evicted = evicted or len(sofar) > fsize
        else:
            model_hist = sofar
        # identify the returned pair through the point
        idx = int(round(float(x[0]))) - 1
        ret = (float(f), float(v))
        want = sofar[idx] if 0 <= idx < len(sofar) else None
        checks += 1
        if want is None or not (oracles.feq(want[0], ret[0]) and
                                oracles.feq(max(want[1], 0.0)
                                            if not math.isnan(want[1])
                                            else want[1], ret[1])):
            viols.append(oracles.V(
                "pair_not_of_point",
                f"best_eval returned x={x.tolist()} with ({f}, {v}) but that "
                f"point was fed {want}", history=sofar))
            break
        verdict, clause, msg = filt.judge(model_hist, pen, TOL, ret, 0.0)
        clauses.add(clause)
        if verdict == "bad":
            nanh = any(math.isnan(a) or math.isnan(b) for a, b in sofar)
            viols.append(oracles.V(
                clause, msg + f" | fed history {sofar}, penalty {pen}, "
                f"filter_size {fsize if fsize < 2**62 else 'inf'}",
                mechanism="nan_in_history" if nanh else "plain",
                history=sofar, penalty=pen, filter_size=fsize))
            break
    special = any(math.isnan(f) or math.isinf(f) or math.isnan(v)
                  or math.isinf(v) or v == TOL for f, v in hist) \
        or len(set(hist)) < len(hist) or evicted
    nt = ("fed|p%g|fs%s|" % (pen, fsize if fsize < 2**62 else "inf")
          + _canon(hist)) if special else None
    sample = None
    if case["idx"] < 2:
        sample = {"fed_history": hist, "penalty": pen,
                  "filter_size": fsize if fsize < 2**62 else "inf",
                  "clauses_exercised": sorted(clauses)}
    return e2e.record(case, viols, nt=nt,
                      tags=["fam:fed"] + ["clause:" + c for c in clauses],
                      counts={"fed_evaluations": length,
                              "best_eval_checks": checks}, sample=sample)


def run_case(case):
    if case["fam"] == "fed":
        with ctx.suspended():
            return run_fed(case)
    rng = e2e.rng_of(ID, case)
    if case["fam"] == "cross":
        spec, _src = e2e.cross_spec(ID, case)
    elif case["fam"] == "e2e_soc":
        # runs rich in second-order corrections, stopped early: the point
        # returned may be a trial point that was corrected afterwards
        from checks import c01
        spec = c01.make_spec({"id": case["id"], "fam": "soc",
                              "idx": case["idx"], "seed": case["seed"]})
        spec["options"]["maxfev"] = int(rng.integers(5, 40))
    elif case["fam"] == "e2e_tol":
        # non-default feasibility tolerances (0, tiny, large) on problems
        # whose solution lies on a curved constraint approached from
        # outside: exactly feasible and barely infeasible points coexist
        n = int(rng.integers(2, 4))
        spec = gen.general(rng, xunit=False, n=n, con="nl", maxfev=(60, 160),
                           obj_kinds=("lin", "quad", "lin"),
                           opt_allow=("scale", "radius"),
                           with_callback=False, bound_patterns="none")
        x0 = np.asarray(spec["x0"], float)
        spec["nl"] = gen.nonlinear_constraints(
            rng, n, x0, count=1, forms=("nlc",), kinds=("upper",),
            comp_kinds=("ball", "quad"))
        spec["options"]["feasibility_tol"] = float(rng.choice(
            [0.0, 0.0, 1e-14, 1e-3]))
        spec.pop("scribble", None)
        if rng.random() < 0.4:
            # a wide finite box that is never active, rescaled: the stated
            # tolerance applies to the user's violations as they are
            hw = 10.0 ** rng.uniform(0.5, 2.5, n)
            spec["bounds"] = {"lb": (x0 - hw * rng.uniform(0.3, 1, n)).tolist(),
                              "ub": (x0 + hw * rng.uniform(0.3, 1, n)).tolist(),
                              "form": "Bounds", "patterns": ["wide"] * n}
            spec["options"]["scale"] = True
            spec["options"]["feasibility_tol"] = float(rng.choice(
                [1e-3, 1e-5, 1e-6, 1e-8]))
    else:
        spec = gen.general(rng, with_faults=(case["fam"] == "e2e_nan"),
                           maxfev=(20, 100), fun_none=0.05,
                           forms=("nlc", "dict_ineq"))
    if case["fam"] == "e2e_nan" and rng.random() < 0.3 and \
            spec["obj"]["kind"] != "none":
        spec["faults"] = [{"target": "obj", "val": "nan",
                           "when": {"idx": [0]}}] + spec.get("faults", [])[:1]
    rec = mrun.run(spec)
    viols, info = oracles.o_c03(rec)
    counts = e2e.base_counts(rec)
    tags = ["fam:" + case["fam"]]
    nt = None
    if info.get("clause"):
        counts["e2e_runs_judged"] = 1
        tags.append("clause:" + info["clause"])
        if info.get("has_nan") or info.get("finite_filter") or \
                info["clause"] != "S1":
            nt = gen.spec_signature(spec) + "|" + info["clause"]
    if info.get("ambiguous"):
        tags.append("ambiguous")
    sample = None
    if case["idx"] < 2:
        sample = {"spec": e2e.spec_brief(spec), "outcome": e2e.brief(rec),
                  "clause": info.get("clause"), "history_len": info.get(
                      "n_hist")}
    return e2e.record(case, e2e.attach(viols, spec, rec), nt=nt, tags=tags,
                      counts=counts, sample=sample,
                      skipped="skipped" in info)
