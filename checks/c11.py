"""C11 - minimize is deterministic, leaves its arguments untouched and is
re-entrant (repetition, argument / module-state sanitizers, thread-pool
interleavings with yield injection, nested calls)."""
import hashlib
import os
import sys
import threading
import time
import warnings
from concurrent.futures import ThreadPoolExecutor

import numpy as np

from vlib import e2e, gen, mrun, ctx, taps, problems, sanit, yieldinj
from vlib.oracles import V, feq

ID = "C11"
LEVEL = "exploration"
RULE = ("(a) the same call repeated 3x in one process must give bitwise "
        "identical evaluation logs and results; (b) deep fingerprints of "
        "x0, bounds, constraint arrays, args, options before/after every "
        "call, and a second run with every input array read-only; (c) "
        "fingerprint of every mutable object reachable from the globals and "
        "class attributes of all cobyqa.* modules before/after; (d) batches "
        "of 2/4/8/16 concurrent calls on a ThreadPoolExecutor over a pool of "
        "problems, half of the calls sharing the very same Bounds / "
        "constraint / x0 / options objects and objective closure, with "
        "sys.setswitchinterval(1e-6) and seeded sleep(0)/microsecond sleeps "
        "in the user functions, each call compared bitwise with its "
        "sequential reference; the global (thread, evaluation) order is "
        "recorded to count context switches and distinct interleavings; the "
        "thorough tier adds sys.monitoring LINE yield injection inside "
        "cobyqa code; (e) an objective that itself calls minimize vs the "
        "same inner solves precomputed.  Non-trivial = a concurrent batch "
        "with >=2 distinct problems sharing objects and >=100 observed "
        "context switches / a nested run; distinct = interleaving hash")
RULE += ("  Also: per-call non-default constants (improve_tcg, ratios, factors) in repeated / concurrent / nested workloads; objectives that are exactly zero on a ball around x0; process-wide warnings.filters compared before / after batches of 32 concurrent calls.")
RULE += (" Unknown option names (caller's dict unchanged); raising user functions in debug mode; numpy errstate / print options in the process state that is compared.")
RULE += (" Family interleave: B, A, B in one thread with array sizes of A and B chosen to coincide (nb_points + n + 1, nb_points, or n).")
ASSUMPTIONS = [
    "thread schedules are those the GIL produces with a 1 us switch interval "
    "plus injected yields; no free-threaded build available",
    "numpy/scipy deterministic for identical inputs in one process",
]
REQUIRED = {"repetition_runs": 100, "untapped_runs": 100, "argument_fingerprints": 100,
            "module_state_entries": 100, "concurrent_calls": 200,
            "context_switches": 2000, "nested_inner_solves": 50}
MIN_NONTRIVIAL = {"quick": 20, "thorough": 150}
PLAN = [("repeat", 120, 1500), ("threads", 40, 500), ("nested", 12, 150),
        ("inject", 0, 60), ("warnfilter", 4, 24),
        ("interleave", 60, 600)]
WALL_BUDGET = {"quick": 900, "thorough": 7200}


def cases(tier, seed):
    return e2e.case_list(PLAN, tier, seed)


def signature(rec):
    """Bitwise signature of a run: evaluation points, values, result."""
    h = hashlib.sha1()
    for e in rec.run.log:
        h.update(e["t"].encode())
        h.update(e["x"].tobytes())
        v = e.get("v")
        if v is not None:
            h.update(np.asarray(v, dtype=float).tobytes())
    if rec.exc is not None:
        h.update(type(rec.exc).__name__.encode())
    else:
        r = rec.res
        h.update(np.asarray(r.x, dtype=float).tobytes())
        h.update(np.float64(r.fun).tobytes())
        h.update(np.float64(r.maxcv).tobytes())
        h.update(repr((int(r.status), int(r.nfev), int(r.nit),
                       bool(r.success))).encode())
    return h.hexdigest()


def describe(rec):
    if rec.exc is not None:
        return type(rec.exc).__name__
    r = rec.res
    return f"st{r.status} nfev{r.nfev} fun{r.fun!r}"


def make_spec(rng, light=False):
    spec = gen.general(rng, maxfev=(20, 60) if light else (25, 90),
                       forms=("nlc", "dict_ineq"), with_callback=False,
                       with_faults=False, fun_none=0.05)
    if rng.random() < 0.15 and spec["con_kind"] in ("none", "lin") and \
            spec["obj"]["kind"] != "none":
        # an objective that is exactly 0.0 on a ball around x0: every model
        # is identically zero (exact ties, zero gradients everywhere)
        x0 = np.asarray(spec["x0"], float)
        spec["obj"] = {"kind": "plateau",
                       "c": (x0 + rng.uniform(-0.3, 0.3, x0.size)).tolist(),
                       "r": float(rng.uniform(1.0, 6.0))}
    if rng.random() < 0.45:
        # non-default constants (kept per call, never in module-level state)
        cst = {}
        if rng.random() < 0.7:
            cst["improve_tcg"] = bool(rng.random() < 0.35)
        if rng.random() < 0.3:
            cst["low_ratio"] = float(rng.uniform(0.05, 0.3))
        if rng.random() < 0.3:
            cst["decrease_radius_factor"] = float(rng.uniform(0.3, 0.7))
        if rng.random() < 0.2:
            cst["byrd_omojokun_factor"] = float(rng.uniform(0.6, 0.9))
        spec["constants"] = cst
    return spec


def run_repeat(case):
    rng = e2e.rng_of(ID, case)
    spec = make_spec(rng)
    if rng.random() < 0.4:
        spec["callback"] = gen.callback(rng, stop=False)
    if rng.random() < 0.2:
        # option names cobyqa does not know (e.g. those of other SciPy
        # solvers): warned about, and the caller's dict stays as it is
        for nm in rng.choice(["f_target", "initial_tr_radius",
                              "final_tr_radius", "maxfun", "rhobeg", "tol"],
                             int(rng.integers(1, 3)), replace=False):
            spec["options"][str(nm)] = 0.5
    if rng.random() < 0.15 and spec["obj"]["kind"] != "none":
        # debug mode, and a user function that fails with its own exception
        # at some evaluation: whatever the call leaves behind is judged
        spec["options"]["debug"] = True
        spec["faults"] = [{"target": "obj", "val": "raise",
                           "when": {"idx": [int(rng.integers(0, 12))]}}]
    elif rng.random() < 0.2 and spec.get("nl"):
        # a constraint function that fails with its own exception at its
        # first evaluation(s) (x0 outside its domain): the caller's
        # constraint objects are left as they were
        spec["faults"] = [{"target": "con", "j": 0, "comp": None,
                           "val": str(rng.choice(["raise", "raise_stop"])),
                           "when": {"idx": [0] if rng.random() < 0.7
                                    else [int(rng.integers(0, 6))]}}]
    viols = []
    counts = {}
    # (c) module state around the first run
    taps.install()
    s0 = sanit.module_state()
    b = problems.build(spec)
    a0 = sanit.args_state(b)
    first = mrun.run(spec, built=b)
    a1 = sanit.args_state(b)
    s1 = sanit.module_state()
    counts["module_state_entries"] = len(s0)
    counts["argument_fingerprints"] = 1
    changed = [k for k in s1 if s0.get(k) != s1[k]] + \
        [k for k in s0 if k not in s1]
    if changed:
        viols.append(V("module_state_changed",
                       f"module-level state of cobyqa changed across a call: "
                       f"{changed[:4]}", mechanism="module_state",
                       keys=[list(k) for k in changed[:6]]))
    diff = [k for k in a0 if a0[k] != a1[k]]
    if diff:
        viols.append(V("arguments_modified",
                       f"minimize modified its arguments: {diff}",
                       mechanism="args:" + ",".join(diff)))
    sig = signature(first)
    # (a) repetition (fresh spies, same spec)
    for rep in range(2):
        again = mrun.run(spec)
        counts["repetition_runs"] = counts.get("repetition_runs", 0) + 1
        if signature(again) != sig:
            viols.append(V("repetition_differs",
                           f"repeating the same call gave a different "
                           f"evaluation sequence / result "
                           f"({describe(first)} vs {describe(again)})",
                           mechanism="repetition"))
            break
    # monitor non-interference: the same call with every tap removed must be
    # bitwise identical at the user boundary (audits the harness itself)
    taps.uninstall()
    try:
        bare = mrun.run(spec, install_taps=False)
    finally:
        taps.install()
    counts["untapped_runs"] = 1
    if signature(bare) != sig:
        viols.append(V("taps_interfere",
                       "harness self-check: the run without taps differs "
                       "from the tapped run (the monitors interfere)",
                       mechanism="harness:taps"))
    # (b) read-only inputs
    ro = mrun.run(spec, readonly=True)
    counts["readonly_runs"] = 1
    if signature(ro) != sig:
        viols.append(V("readonly_differs",
                       f"the same call with read-only input arrays behaves "
                       f"differently ({describe(first)} vs {describe(ro)})",
                       mechanism="readonly:" + describe(ro)[:30]))
    for v in viols:
        v["witness"]["spec"] = e2e.jsonable(spec)
    sample = None
    if case["idx"] < 2:
        sample = {"spec": e2e.spec_brief(spec), "signature": sig,
                  "outcome": e2e.brief(first),
                  "module_state_entries_tracked": len(s0)}
    return e2e.record(case, viols, nt=None, tags=["fam:repeat"],
                      counts=counts, sample=sample)


class SleepyBuilt:
    """Wrap the user functions of a Built with seeded tiny sleeps."""

    def __init__(self, built, seed):
        self.built = built
        self.rs = np.random.default_rng(seed)
        self.lock = threading.Lock()

    def nap(self):
        with self.lock:
            u = self.rs.random()
        if u < 0.3:
            time.sleep(0)
        elif u < 0.4:
            time.sleep(1e-6 * (1 + 20 * u))


def run_threads(case, inject=False):
    rng = e2e.rng_of(ID, case)
    nthreads = int([2, 4, 8, 16][case["idx"] % 4])
    npool = max(2, nthreads // 2)
    specs = [make_spec(rng, light=True) for _ in range(npool)]
    taps.install()
    refs = []
    for sp in specs:
        r = mrun.run(sp)
        refs.append(signature(r))
    # jobs: every problem twice; the second instance of each problem shares
    # the very same Built (bounds / constraints / x0 / options / spies)
    shared = [problems.build(sp) for sp in specs]
    naps = [SleepyBuilt(b, int(rng.integers(1 << 30))) for b in shared]
    for b, nb in zip(shared, naps):
        for spy in ([b.obj_spy] if b.obj_spy is not None else []) + \
                list(b.con_spies):
            base = spy.base if hasattr(spy, "base") else None
            if base is not None:
                spy.base = (lambda base, nb: (lambda x: (nb.nap(),
                                                         base(x))[1]))(base,
                                                                      nb)
            else:
                comps = spy.comps
                spy.comps = [(lambda f, nb: (lambda x: (nb.nap(), f(x))[1]))(
                    f, nb) for f in comps]
    jobs = []
    for i in range(nthreads):
        k = i % npool
        jobs.append((k, shared[k] if (i // npool) % 2 == 1 or nthreads <= npool
                     else None))
    problems.GLOBAL_ORDER.clear()
    results = [None] * len(jobs)
    old = sys.getswitchinterval()
    sys.setswitchinterval(1e-6)
    if inject:
        yieldinj.enable(per_mille=15)

    def work(i):
        k, sh = jobs[i]
        run = ctx.Run(label=f"{i}:{k}")
        run.data["global_order"] = True
        rec = mrun.Rec()
        rec.spec = specs[k]
        rec.built = sh if sh is not None else problems.build(specs[k])
        rec.run = run
        # (no warnings.catch_warnings() here: it is not thread-safe; the
        # filters are set once, in the main thread, around the whole batch)
        with ctx.active(run):
            try:
                rec.res = problems.call_minimize(rec.built)
            except BaseException as exc:  # noqa: BLE001
                rec.exc = exc
        results[i] = rec

    filters_before = list(warnings.filters)
    try:
        warnings.simplefilter("ignore")
        with ThreadPoolExecutor(max_workers=nthreads) as ex:
            list(ex.map(work, range(len(jobs))))
    finally:
        sys.setswitchinterval(old)
        # scipy's constraint classes use catch_warnings() inside the calls:
        # whatever they leaked is undone here (KF-C11-warnings-filter-race is
        # judged by the 'warnfilter' family only)
        warnings.filters[:] = filters_before
        if hasattr(warnings, "_filters_mutated"):
            warnings._filters_mutated()
        ystats = None
        if inject:
            ystats = yieldinj.stats()
            yieldinj.disable()
    order = list(problems.GLOBAL_ORDER)
    problems.GLOBAL_ORDER.clear()
    switches = sum(1 for a, b in zip(order, order[1:]) if a[0] != b[0])
    ih = hashlib.sha1(repr([(o[1]) for o in order]).encode()).hexdigest()[:16]
    viols = []
    nshared = 0
    for i, rec in enumerate(results):
        k, sh = jobs[i]
        if sh is not None:
            nshared += 1
        if rec is None:
            viols.append(V("thread_no_result", f"job {i} produced nothing"))
            continue
        if signature(rec) != refs[k]:
            viols.append(V(
                "concurrent_differs",
                f"{nthreads} concurrent calls: call {i} (problem {k}, "
                f"{'shared' if sh is not None else 'private'} argument "
                f"objects) differs from its sequential reference "
                f"({describe(rec)})",
                mechanism="warnings_filter_race" if isinstance(
                    rec.exc, Warning) else "threads:" + (
                    "exc:" + type(rec.exc).__name__
                    if rec.exc is not None else "result"),
                spec=e2e.jsonable(specs[k]), threads=nthreads))
            if len(viols) >= 3:
                break
    nt = None
    if switches >= 100 and len(set(j[0] for j in jobs)) >= 2 and nshared:
        nt = "threads|" + ih
    counts = {"concurrent_calls": len(jobs), "context_switches": switches,
              "thread_batches": 1, "events_in_global_order": len(order),
              "calls_sharing_argument_objects": nshared}
    if ystats:
        counts["injected_yields"] = ystats["yields"]
        counts["line_events"] = ystats["line_events"]
    sample = None
    if case["idx"] < 2:
        sample = {"threads": nthreads, "problems": npool,
                  "events": len(order), "context_switches": switches,
                  "interleaving_hash": ih,
                  "first_events": [list(map(str, o[1:])) for o in order[:12]]}
    return e2e.record(case, viols, nt=nt,
                      tags=["fam:" + case["fam"], f"threads:{nthreads}"],
                      counts=counts, sample=sample)


def run_interleave(case):
    """B, A, B in one thread: the second run of B equals the first whatever
    A was.  A and B have different numbers of variables and non-default
    numbers of interpolation points chosen so that internal array sizes
    coincide (nb_points + n + 1 equal, or nb_points equal, or n equal): a
    work array kept between calls and keyed on a size would be shared."""
    rng = e2e.rng_of(ID, case)

    def valid(n, npt):
        return n + 1 <= npt <= (n + 1) * (n + 2) // 2

    pairs = []
    for na in range(1, 7):
        for nb in range(1, 7):
            for npa in range(na + 1, (na + 1) * (na + 2) // 2 + 1):
                for npb in range(nb + 1, (nb + 1) * (nb + 2) // 2 + 1):
                    if na == nb and npa == npb:
                        continue
                    if npa + na == npb + nb or (npa == npb and na != nb) \
                            or (na == nb):
                        pairs.append((na, npa, nb, npb))
    kind = str(rng.choice(["sum", "sum", "npt", "n"]))
    sel = [p for p in pairs if (
        (kind == "sum" and p[1] + p[0] == p[3] + p[2] and p[0] != p[2])
        or (kind == "npt" and p[1] == p[3] and p[0] != p[2])
        or (kind == "n" and p[0] == p[2]))]
    na, npa, nb, npb = sel[int(rng.integers(len(sel)))]

    def mk(n, npt):
        sp = gen.general(rng, n=n, con=str(rng.choice(["none", "none", "lin",
                                                        "nl"])),
                         obj_kinds=("quad", "rosen", "sinq"),
                         bound_patterns="none", with_callback=False,
                         opt_allow=(), maxfev=(60, 140), xunit=False)
        sp["options"]["nb_points"] = npt
        for k in ("rtype", "scribble"):
            sp.pop(k, None)
        return sp
    spec_a, spec_b = mk(na, npa), mk(nb, npb)
    taps.install()
    b1 = mrun.run(spec_b)
    a = mrun.run(spec_a)
    b2 = mrun.run(spec_b)
    viols = []
    if signature(b1) != signature(b2):
        viols.append(V("repetition_differs",
                       f"the same call (n={nb}, nb_points={npb}) gives "
                       f"another result after an unrelated call (n={na}, "
                       f"nb_points={npa}) in between: {describe(b1)} vs "
                       f"{describe(b2)}", mechanism="interleaved:" + kind,
                       spec=e2e.jsonable(spec_b),
                       other=e2e.jsonable(spec_a)))
    counts = {"interleaved_triples": 1,
              "repetition_runs": 2}
    for key, val in e2e.base_counts(a).items():
        counts[key] = counts.get(key, 0) + val
    return e2e.record(case, viols,
                      nt=f"interleave|{kind}|{na},{npa}|{nb},{npb}",
                      tags=["fam:interleave"], counts=counts)


def run_nested(case):
    import cobyqa
    rng = e2e.rng_of(ID, case)
    n = int(rng.integers(1, 3))
    c = rng.uniform(-1, 1, n)
    w = rng.uniform(0.5, 2.0, 2)
    inner_log = []
    table = {}
    inner_cst = {}
    if rng.random() < 0.6:
        inner_cst["improve_tcg"] = bool(rng.random() < 0.5)
    if rng.random() < 0.3:
        inner_cst["low_ratio"] = float(rng.uniform(0.05, 0.3))
    outer_cst = {}
    if rng.random() < 0.4:
        outer_cst["improve_tcg"] = bool(rng.random() < 0.5)
    box = rng.random() < 0.6   # a box makes boundary improvements matter

    def inner_solve(x):
        # inner problem depends on x: min_y (y0 - x0)^2 + w0 (y1 - 1)^2, y>=0
        t = float(x[0])

        def g(y):
            return float((y[0] - t) ** 2 + w[0] * (y[1] - 1.0) ** 2
                         + w[1] * y[0] * y[1])
        with ctx.active(ctx.Run(label="inner")):
            with warnings.catch_warnings():
                warnings.simplefilter("ignore")
                r = cobyqa.minimize(g, [0.5, 0.5],
                                    bounds=[(0, None), (0, None)],
                                    options={"maxfev": 40}, **inner_cst)
        return r

    def outer_nested(x):
        r = inner_solve(x)
        key = np.asarray(x, dtype=float).tobytes()
        table[key] = float(r.fun)
        inner_log.append((key, float(r.fun), r.x.tobytes(), int(r.nfev)))
        return float((x - c) @ (x - c)) + float(r.fun)

    def outer_table(x):
        key = np.asarray(x, dtype=float).tobytes()
        return float((x - c) @ (x - c)) + table[key]

    taps.install()
    viols = []
    s0 = sanit.module_state()
    x0 = rng.uniform(-1, 1, n)
    opts = {"maxfev": int(rng.integers(12, 30))}
    with warnings.catch_warnings():
        warnings.simplefilter("ignore")
        bnds = [(-0.6, 0.7)] * n if box else None
        if box:
            x0 = np.clip(x0, -0.6, 0.7)
        with ctx.active(ctx.Run(label="outer")):
            ra = cobyqa.minimize(outer_nested, x0, bounds=bnds, options=opts,
                                 **outer_cst)
        try:
            with ctx.active(ctx.Run(label="outer2")):
                rb = cobyqa.minimize(outer_table, x0, bounds=bnds,
                                     options=opts, **outer_cst)
        except KeyError:
            rb = None
    if rb is None or not (ra.x.tobytes() == rb.x.tobytes()
                          and feq(ra.fun, rb.fun) and ra.nfev == rb.nfev
                          and ra.status == rb.status):
        viols.append(V("nested_differs",
                       "an objective that calls minimize gives a different "
                       "outer run than the same inner solves precomputed",
                       mechanism="nested:outer"))
    # the nested runs leave the process as they found it (module state of
    # cobyqa, numpy's floating-point error handling and print options)
    s1 = sanit.module_state()
    changed = [k for k in s1 if s0.get(k) != s1[k]] + \
        [k for k in s0 if k not in s1]
    if changed:
        viols.append(V("module_state_changed",
                       f"process / module state changed across nested "
                       f"calls: {changed[:4]}", mechanism="module_state",
                       keys=[list(k) if isinstance(k, tuple) else k
                             for k in changed[:6]]))
    # every inner solve must equal the same solve run standalone
    bad = 0
    for key, fval, xb, nf in inner_log[:6]:
        x = np.frombuffer(key, dtype=float)
        r = inner_solve(x)
        if not (feq(r.fun, fval) and r.x.tobytes() == xb and r.nfev == nf):
            bad += 1
    if bad:
        viols.append(V("nested_inner_differs",
                       f"{bad} inner solves differ between nested and "
                       f"standalone execution", mechanism="nested:inner"))
    counts = {"nested_inner_solves": len(inner_log), "nested_outer_runs": 1}
    sample = {"n": n, "outer_nfev": int(ra.nfev),
              "inner_solves": len(inner_log)} if case["idx"] < 2 else None
    return e2e.record(case, viols, nt=f"nested|n{n}|{opts['maxfev']}|"
                      f"{len(inner_log)}", tags=["fam:nested"],
                      counts=counts, sample=sample)


def run_warnfilter(case):
    """Process-wide warning filters must be the same after a batch of
    concurrent calls as before (a leaked ``error`` filter makes any later
    call whose objective emits a warning raise instead of returning)."""
    import cobyqa
    from scipy.optimize import LinearConstraint
    rng = e2e.rng_of(ID, case)
    n = int(rng.integers(2, 4))
    a = rng.uniform(-1, 1, (int(rng.integers(1, 40)), n))
    x0 = rng.uniform(-2, 2, n)

    def job(i):
        with ctx.active(ctx.Run(label=f"w{i}")):
            return cobyqa.minimize(
                lambda x: float(x @ x), x0,
                constraints=LinearConstraint(a, -np.inf, 50.0),
                options={"maxfev": 12}).nfev

    before = list(warnings.filters)
    old = sys.getswitchinterval()
    sys.setswitchinterval(1e-6)
    rounds = 0
    leaked = []
    try:
        with ThreadPoolExecutor(max_workers=16) as ex:
            for _ in range(6):
                list(ex.map(job, range(32)))
                rounds += 1
                leaked = [f for f in warnings.filters if f not in before]
                if leaked:
                    break
    finally:
        sys.setswitchinterval(old)
        warnings.filters[:] = before
        if hasattr(warnings, "_filters_mutated"):
            warnings._filters_mutated()
    viols = []
    if leaked:
        viols.append(V(
            "process_warning_filters_changed",
            f"after {rounds * 32} concurrent calls sharing nothing but the "
            f"process, warnings.filters gained {leaked[:2]!r}",
            mechanism="warnings_filter_race"))
    return e2e.record(case, viols, nt=None, tags=["fam:warnfilter"],
                      counts={"warnfilter_batches": rounds,
                              "concurrent_calls": rounds * 32})


def run_case(case):
    if case["fam"] == "warnfilter":
        return run_warnfilter(case)
    if case["fam"] == "repeat":
        return run_repeat(case)
    if case["fam"] == "interleave":
        return run_interleave(case)
    if case["fam"] == "threads":
        return run_threads(case)
    if case["fam"] == "inject":
        return run_threads(case, inject=True)
    return run_nested(case)
