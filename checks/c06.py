"""C06 - user functions are called once per evaluation, never behind the
scenes and never at points in the solver's internal variables."""
import numpy as np

from vlib import e2e, gen, mrun, oracles

ID = "C06"
LEVEL = "exploration"
RULE = ("problems with 1-3 nonlinear constraint objects (NonlinearConstraint "
        "and dict, scalar and vector valued) with/without objective, scale "
        "on/off, fixed variables; every user call of a run is grouped per "
        "counted evaluation; non-trivial = run with >=1 constraint object, >=1 "
        "main-loop iteration and a positive penalty at some evaluation; "
        "distinct = (n, forms, scale, fixed, objective present, step kinds)")
RULE += ("  Also: the point each objective call is made at is compared with an INDEPENDENT harness map from the solver's internal point (fixed variables inserted, (ub-lb)/2*x+(ub+lb)/2, projection), not with Problem.build_x; NaN / inf faults together with fixed / scaled variables; unit scaling factors with non-zero shifts.")
ASSUMPTIONS = [
    "an omitted constraint call is legitimate only when the point equals the "
    "previous call point of that function (scipy's one-entry cache)",
]
REQUIRED = {"eval.post": 1000, "spy.con": 1000, "penalty_positive_runs": 20}
MIN_NONTRIVIAL = {"quick": 20, "thorough": 100}
PLAN = [("multi", 900, 14000), ("fixedscale", 500, 8000), ("nofun", 200, 3000), ("cross", 300, 6000)]


def cases(tier, seed):
    return e2e.case_list(PLAN, tier, seed)


def make_spec(case):
    rng = e2e.rng_of(ID, case)
    fam = case["fam"]
    n = int(rng.integers(1, 5))
    forms = ("nlc", "nlc", "dict_ineq", "dict_eq")
    if fam == "multi":
        spec = gen.general(rng, n=n, con=str(rng.choice(["nl", "both"])),
                           forms=forms, maxfev=(30, 150))
        spec["nl"] = gen.nonlinear_constraints(
            rng, n, np.asarray(spec["x0"]), count=int(rng.integers(1, 4)),
            forms=forms)
    elif fam == "fixedscale":
        n = int(rng.integers(2, 5))
        pats = [str(rng.choice(["two", "two", "fixed", "width2", "zero"]))
                for _ in range(n)]
        if all(p == "fixed" for p in pats):
            pats[0] = "two"
        if rng.random() < 0.2:
            pats = ["width2"] * n     # unit scaling factors, non-zero shifts
        spec = gen.general(rng, n=n, con="nl", forms=forms,
                           bound_patterns=("two",), maxfev=(30, 150))
        x0 = np.asarray(spec["x0"])
        lb, ub, pats = gen.bounds(rng, n, x0, force=pats)
        x0, _ = gen.place_x0(rng, x0, lb, ub, "inside")
        spec["x0"] = x0.tolist()
        spec["bounds"] = {"lb": lb.tolist(), "ub": ub.tolist(),
                          "form": "Bounds", "patterns": pats}
        spec["options"]["scale"] = bool(rng.random() < 0.6)
        gen.clamp_npt(spec)
        if rng.random() < 0.4:
            # undefined / infinite constraint (or objective) values at some
            # evaluations while the internal variables differ from the user's
            spec["faults"] = gen.fault_plan(rng, spec, density=2)
    else:
        spec = gen.general(rng, n=n, con=str(rng.choice(["nl", "both"])),
                           forms=forms, fun_none=1.0, maxfev=(20, 100))
    return spec


def run_case(case):
    if case["fam"] == "cross":
        spec, _src = e2e.cross_spec(ID, case)
    else:
        spec = make_spec(case)
    rec = mrun.run(spec)
    viols, info = oracles.o_c06(rec)
    counts = e2e.base_counts(rec)
    kinds = oracles.kinds_seen(rec)
    loop = rec.run.counts.get("step.tr.pre", 0) > 0
    if info.get("penalty_positive"):
        counts["penalty_positive_runs"] = 1
    counts["cached_omissions"] = info.get("omitted_cached", 0)
    nt = None
    if spec.get("nl") and loop and info.get("penalty_positive"):
        nt = gen.spec_signature(spec) + "|" + ",".join(
            sorted(set(c.get("form", "nlc") for c in spec["nl"]))) + "|" + \
            ",".join(kinds)
    sample = None
    if case["idx"] < 2:
        sample = {"spec": e2e.spec_brief(spec), "outcome": e2e.brief(rec),
                  "constraint_calls": rec.run.counts.get("spy.con", 0),
                  "rounds": info.get("rounds")}
    return e2e.record(case, e2e.attach(viols, spec, rec), nt=nt,
                      tags=["fam:" + case["fam"]] + ["kind:" + k
                                                      for k in kinds],
                      counts=counts, sample=sample)
