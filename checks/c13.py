"""C13 - models are the least-Frobenius-norm interpolants the method
prescribes (exact rational reference)."""
import warnings

import numpy as np
from fractions import Fraction as Fr

from vlib import e2e, ctx, drive, interp
from vlib.oracles import V
from vlib.refs import exact

ID = "C13"
LEVEL = "exploration"
RULE = ("direct-driven histories on a real Models (n=1..4, every admissible "
        "nb_points, 0-3 constraint models of both kinds, <=10 operations): (1) a fresh "
        "model (initial build / reset) is compared with the exact "
        "least-Frobenius-norm interpolant of the recorded values (constant, "
        "gradient, full Hessian in the solver's balanced scaling); (2) "
        "one-step check of the symmetric-Broyden recursion: the float model "
        "before an update is converted exactly to rationals, the exact LFN "
        "quadratic interpolating e_k*(value - model_before(x_new)) on the "
        "new set is added, and the result is compared with the float model "
        "after the update (one update's rounding only); (3) the views of one "
        "quadratic (__call__, grad, hess, hess_prod, curv) at random probes "
        "and directions within a few radii agree with the exact evaluation "
        "of the same coefficients, and a base shift leaves the function "
        "unchanged at the probes.  Non-trivial = npt < (n+1)(n+2)/2 with a "
        "non-zero Hessian; distinct = (n, npt, operation pattern)")
RULE += ("  Also: initial sets made asymmetric by bounds on / near x0; long histories (130 consecutive replacements) in which EVERY update is compared in floating point with 'model before + least-Frobenius-norm interpolant of the residual on the new set'. Bounds are relative to the magnitude of the Hessian representation (explicit part plus individual implicit terms).")
RULE += (" Base shifts to arbitrary points of the region.")
RULE += (' The Models-level views (fun/con values, gradients, curvatures) are probed at fixed points after every update; function values at barrier scale.')
RULE += (" Family real: in complete runs, TrustRegion.shift_x_base leaves the Hessian, the value and the gradient at the new base of every model unchanged (tap pair on the framework method).")
RULE += (" Updates that replace a point by itself with other values; contracting long histories.")
ASSUMPTIONS = [
    "bounds: fresh N*eps*cond2*|z|, one-step N*eps*(cond2*max(|z|,|d|) + "
    "|old coefficients|) in the balanced scaling; held <= 1e3x, violation > "
    "1e6x; cond2 > 1e10 skipped",
    "Fraction arithmetic (Gauss-Jordan) is the trusted base",
]
REQUIRED = {"fresh_models_checked": 200, "one_step_checks": 1000,
            "view_probes": 3000, "shift_probes": 100}
MIN_NONTRIVIAL = {"quick": 60, "thorough": 500}
PLAN = [("driven", 320, 4800), ("long", 24, 200), ("real", 60, 900)]
EPS = np.finfo(float).eps


def cases(tier, seed):
    return e2e.case_list(PLAN, tier, seed)


def cond_scale(xpt):
    scale, ev, vec, big = interp.sysinfo(xpt)
    if ev is None:
        return np.inf, scale
    return np.abs(ev).max() / np.abs(ev).min(), scale


def fmax(seq):
    return max((abs(float(v)) for v in seq), default=0.0)


def scaled_mag(model, scale):
    c, g, H = model
    return max(abs(float(c)), fmax(g) * scale,
               fmax(v for r in H for v in r) * scale ** 2)


def scaled_diff(a, b, scale, plus=None):
    """max scaled coefficient difference between model a and b (+plus)."""
    n = len(a[1])
    z = plus or (Fr(0), [Fr(0)] * n, [[Fr(0)] * n for _ in range(n)])
    ec = abs(float(a[0] - b[0] - z[0]))
    eg = max(abs(float(a[1][i] - b[1][i] - z[1][i])) for i in range(n)) * scale
    eh = max(abs(float(a[2][i][j] - b[2][i][j] - z[2][i][j]))
             for i in range(n) for j in range(n)) * scale ** 2
    return max(ec, eg, eh)


class Judge:
    def __init__(self):
        self.viols = []
        self.gray = 0
        self.worst = {}
        self.counts = {}

    def count(self, k, n=1):
        self.counts[k] = self.counts.get(k, 0) + n

    def zone(self, clause, err, bound, msg, **w):
        if not (bound > 0 and np.isfinite(bound)):
            self.count("skipped")
            return
        r = err / bound
        self.worst[clause] = max(self.worst.get(clause, 0.0), r)
        if not (r <= 1e6):
            if len(self.viols) < 3:
                self.viols.append(V(clause, msg + f" (error/bound {r:.3g})",
                                    mechanism=clause, **w))
        elif r > 1e3:
            self.gray += 1


def all_models(m):
    out = [("fun", m._fun, m.fun_val)]
    out += [("cub%d" % i, q, m.cub_val[:, i]) for i, q in enumerate(m._cub)]
    out += [("ceq%d" % i, q, m.ceq_val[:, i]) for i, q in enumerate(m._ceq)]
    return out


def check_fresh(h, jd, where):
    itp = h.itp
    cond, scale = cond_scale(itp.xpt)
    if not cond < 1e10:
        jd.count("skipped_singular")
        return
    X = exact.points_of(itp.xpt)
    nn = itp.npt + itp.n + 1
    for name, q, vals in all_models(h.models):
        ref = exact.lfn(X, exact.frv(vals))
        if ref is None:
            jd.count("skipped_singular")
            continue
        got = exact.model_of(q, itp.xpt)
        err = scaled_diff(got, ref, scale)
        z = max(scaled_mag(ref, scale), float(np.max(np.abs(vals))))
        jd.count("fresh_models_checked")
        jd.zone("fresh_not_lfn", err, nn * EPS * cond * z,
                f"{where}: model '{name}' differs from the exact "
                f"least-Frobenius-norm interpolant of the recorded values by "
                f"{err:.3g} (scaled coefficients, cond {cond:.3g})")


def check_model_views(h, jd, probes, dirs):
    """The Models-level views (fun, fun_grad, fun_hess, fun_hess_prod,
    fun_curv and the cub / ceq variants) at FIXED probe points, after every
    operation: they are the views of the models as they are NOW (the
    quadratic-level views are compared with exact arithmetic elsewhere)."""
    m = h.models
    itp = h.itp

    def same(a, b, what):
        a = np.asarray(a, dtype=float)
        b = np.asarray(b, dtype=float)
        jd.count("model_view_probes")
        bad = a.shape != b.shape or not np.all(
            (a == b) | (np.abs(a - b) <= 8 * EPS * np.maximum(np.abs(a),
                                                              np.abs(b))))
        if bad and len(jd.viols) < 3:
            jd.viols.append(V("models_view_stale",
                              f"Models.{what} differs from the view of the "
                              f"current quadratic: {a.tolist()} vs "
                              f"{b.tolist()}", mechanism="models_view"))
    for x, v in zip(probes, dirs):
        same(m.fun(x), m._fun(x, itp), "fun")
        same(m.fun_grad(x), m._fun.grad(x, itp), "fun_grad")
        same(m.fun_hess(), m._fun.hess(itp), "fun_hess")
        same(m.fun_hess_prod(v), m._fun.hess_prod(v, itp), "fun_hess_prod")
        same(m.fun_curv(v), m._fun.curv(v, itp), "fun_curv")
        if len(m._cub):
            same(m.cub(x), [q(x, itp) for q in m._cub], "cub")
            same(m.cub_grad(x), [q.grad(x, itp) for q in m._cub], "cub_grad")
            same(m.cub_curv(v), [q.curv(v, itp) for q in m._cub], "cub_curv")
        if len(m._ceq):
            same(m.ceq(x), [q(x, itp) for q in m._ceq], "ceq")
            same(m.ceq_grad(x), [q.grad(x, itp) for q in m._ceq], "ceq_grad")
            same(m.ceq_curv(v), [q.curv(v, itp) for q in m._ceq], "ceq_curv")


def check_views(h, jd, rng):
    itp = h.itp
    n = itp.n
    scale = max(float(np.max(np.linalg.norm(itp.xpt, axis=0))), 1e-300)
    for name, q, vals in all_models(h.models):
        model = exact.model_of(q, itp.xpt)
        c, g, H = model
        for _ in range(3):
            x = itp.x_base + rng.standard_normal(n) * scale * rng.uniform(0, 3)
            v = rng.standard_normal(n) * scale
            d = [Fr(float(a)) - Fr(float(b)) for a, b in zip(x, itp.x_base)]
            vf = exact.frv(v)
            mg = float(interp.mag(q, itp, x))
            # value
            ev_ = float(exact.evaluate(model, d))
            jd.count("view_probes")
            jd.zone("view_value", abs(float(q(x, itp)) - ev_), 8 * EPS * mg,
                    f"model '{name}': __call__ differs from the exact value "
                    f"of its own coefficients")
            # gradient
            eg = [float(g[i] + sum(H[i][j] * d[j] for j in range(n)))
                  for i in range(n)]
            gm = float(np.max(np.abs(q._grad))) + float(
                np.sum(np.abs(q._e_hess)) * np.max(np.abs(x - itp.x_base))
                + np.sum(np.abs(q._i_hess) * np.sum(np.abs(itp.xpt), axis=0)
                         * np.abs(itp.xpt.T @ (x - itp.x_base)).clip(
                             min=np.abs(itp.xpt).T @ np.abs(x - itp.x_base))))
            jd.zone("view_grad", float(np.max(np.abs(
                q.grad(x, itp) - np.array(eg)))), 16 * EPS * n * (gm + 1e-300),
                f"model '{name}': grad differs from the exact gradient")
            # hess, hess_prod, curv
            hf = np.array([[float(H[i][j]) for j in range(n)]
                           for i in range(n)])
            hm = float(np.sum(np.abs(q._e_hess))
                       + np.sum(np.abs(q._i_hess)
                                * np.sum(np.abs(itp.xpt), axis=0) ** 2))
            jd.zone("view_hess", float(np.max(np.abs(q.hess(itp) - hf))),
                    16 * EPS * (hm + 1e-300),
                    f"model '{name}': hess differs from e_hess + sum "
                    f"lambda_k x_k x_k^T")
            hv = [float(sum(H[i][j] * vf[j] for j in range(n)))
                  for i in range(n)]
            jd.zone("view_hess_prod", float(np.max(np.abs(
                q.hess_prod(v, itp) - np.array(hv)))),
                16 * EPS * n * (hm * float(np.max(np.abs(v))) + 1e-300),
                f"model '{name}': hess_prod differs from H v")
            cv = float(sum(H[i][j] * vf[i] * vf[j] for i in range(n)
                           for j in range(n)))
            jd.zone("view_curv", abs(float(q.curv(v, itp)) - cv),
                    16 * EPS * n * (hm * float(np.max(np.abs(v))) ** 2
                                    + 1e-300),
                    f"model '{name}': curv differs from v^T H v")


def rep_mag(q, xpt, scale):
    """Magnitude of the REPRESENTATION of a model's Hessian (explicit part
    plus the individual implicit rank-one terms, which may cancel): rounding
    errors of an update are relative to it, not to the net Hessian."""
    a = np.abs(np.asarray(q._e_hess, dtype=float))
    a = a + (np.abs(xpt) * np.abs(np.asarray(q._i_hess, dtype=float))) \
        @ np.abs(xpt).T
    return float(np.max(a, initial=0.0)) * scale ** 2


def fmodel(q, xpt, scale):
    """Float (c, g*scale, H*scale^2) of a Quadratic relative to the base."""
    h = np.array(q._e_hess, dtype=float, copy=True)
    h = h + (xpt * np.asarray(q._i_hess, dtype=float)) @ xpt.T
    return (float(q._const), np.asarray(q._grad, float) * scale,
            h * scale ** 2)


def flfn(xpt, rhs, scale):
    """Float least-Frobenius-norm interpolant of rhs on xpt, in the scaled
    coefficients (c, g*scale, H*scale^2); solved on the balanced system."""
    n, npt = xpt.shape
    y = xpt / scale
    w = np.zeros((npt + n + 1, npt + n + 1))
    w[:npt, :npt] = 0.5 * (y.T @ y) ** 2
    w[:npt, npt] = 1.0
    w[npt, :npt] = 1.0
    w[:npt, npt + 1:] = y.T
    w[npt + 1:, :npt] = y
    sol = np.linalg.solve(w, np.concatenate([rhs, np.zeros(n + 1)]))
    lam = sol[:npt]
    return float(sol[npt]), sol[npt + 1:], (y * lam) @ y.T


def run_long(case):
    """Long histories (130 consecutive replacements, no reset, no shift):
    EVERY update is checked in floating point against 'model before + least
    Frobenius norm interpolant of the residual on the new set' (whatever the
    solver does after N updates must still be the symmetric Broyden step)."""
    rng = e2e.rng_of(ID, case)
    jd = Judge()
    with ctx.suspended(), warnings.catch_warnings():
        warnings.simplefilter("ignore")
        n = int(rng.integers(2, 4))
        npt = int(rng.integers(n + 2, 2 * n + 2))
        h = drive.History(rng, n=n, npt=npt, mc_ub=int(rng.integers(0, 2)),
                          mc_eq=int(rng.integers(0, 2)), box=False)
        itp = h.itp
        nn = h.npt + n + 1
        done = 0
        # contracting histories: the set shrinks around an UNCHANGED base
        # point by 4-6 decades (no shift, no reset), farthest point replaced
        shrink = float(rng.choice([0.0, 0.0, 0.9, 0.93]))
        for t in range(130):
            if jd.viols:
                break
            kind, x_new = h.new_point("near")
            how, k = h.choose_index(x_new, "max_det" if rng.random() < 0.7
                                    else "random")
            if shrink:
                x_new = itp.x_base + rng.standard_normal(n) * h.radius \
                    * shrink ** (t + 1)
                k = int(np.argmax(np.linalg.norm(itp.xpt, axis=0)))
                jd.count("contracting_updates")
            fv, cub, ceq = h.pb(x_new)
            dd = [float(fv - h.models.fun(x_new))]
            dd += [float(c_ - m_) for c_, m_ in zip(cub, h.models.cub(x_new))]
            dd += [float(c_ - m_) for c_, m_ in zip(ceq, h.models.ceq(x_new))]
            cond0, scale0 = cond_scale(itp.xpt)
            before = [fmodel(q, itp.xpt, scale0)
                      for _, q, _ in all_models(h.models)]
            reps = [rep_mag(q, itp.xpt, scale0)
                    for _, q, _ in all_models(h.models)]
            try:
                h.models.update_interpolation(k, x_new, fv, cub, ceq)
            except np.linalg.LinAlgError:
                break
            done += 1
            cond, scale = cond_scale(itp.xpt)
            if not cond < 1e8 or not cond0 < 1e8:
                jd.count("skipped_singular")
                continue
            for (name, q, _), m0, d, rp in zip(all_models(h.models), before,
                                               dd, reps):
                rhs = np.zeros(h.npt)
                rhs[k] = d
                try:
                    up = flfn(itp.xpt, rhs, scale)
                except np.linalg.LinAlgError:
                    jd.count("skipped_singular")
                    continue
                m1 = fmodel(q, itp.xpt, scale)
                r0 = scale / scale0
                m0s = (m0[0], m0[1] * r0, m0[2] * r0 ** 2)
                err = max(abs(m1[0] - m0s[0] - up[0]),
                          float(np.max(np.abs(m1[1] - m0s[1] - up[1]))),
                          float(np.max(np.abs(m1[2] - m0s[2] - up[2]))))
                zmag = max(abs(up[0]), float(np.max(np.abs(up[1]))),
                           float(np.max(np.abs(up[2]))), abs(d))
                old = max(abs(m0s[0]), float(np.max(np.abs(m0s[1]))),
                          float(np.max(np.abs(m0s[2]))), rp * r0 ** 2,
                          rep_mag(q, itp.xpt, scale))
                jd.count("long_step_checks")
                jd.zone("update_not_lfn_step", err,
                        nn * EPS * (cond * zmag + old),
                        f"update #{t + 1} of a long history (index {k}): "
                        f"model '{name}' after the update differs from "
                        f"(model before + least-Frobenius-norm correction) "
                        f"by {err:.3g} (scaled coefficients, cond "
                        f"{cond:.3g})")
    counts = dict(jd.counts)
    counts["long_histories"] = 1
    for v in jd.viols:
        v["witness"].update({"n": n, "npt": h.npt, "updates": done})
    return e2e.record(case, jd.viols, nt=f"long|n{n}|npt{h.npt}|{done // 50}",
                      tags=["fam:long"], counts=counts, gray=jd.gray,
                      maxes={k: v for k, v in jd.worst.items()})


class ShiftMonitor:
    """Real runs: what the FRAMEWORK does when it moves the base point
    (TrustRegion.shift_x_base) leaves every model the same function - same
    Hessian, same value and gradient at the new base - up to the rounding of
    the re-expansion.  (A base shift that rebuilt the models would replace
    the symmetric-Broyden history by fresh interpolants.)"""

    def __init__(self):
        self.viols = []
        self.shifts = 0
        self.judged = 0
        self.worst = 0.0
        self.pre = None

    @staticmethod
    def snap(tr):
        m = tr.models
        itp = m.interpolation
        x = np.array(tr.x_best, dtype=float, copy=True)
        out = []
        for name, q, _ in all_models(m):
            habs = np.abs(q._e_hess) + (np.abs(itp.xpt) * np.abs(
                q._i_hess)) @ np.abs(itp.xpt).T
            out.append((name, np.array(q.hess(itp), dtype=float),
                        float(np.max(habs, initial=0.0)),
                        float(q(x, itp)), np.array(q.grad(x, itp), float),
                        float(interp.mag(q, itp, x)),
                        float(np.max(np.abs(q._grad), initial=0.0))))
        return x, out

    def on_pre(self, run, tr, what, args):
        if what == "shift_x_base":
            self.pre = self.snap(tr)

    def on_post(self, run, tr, what, args, out):
        if what != "shift_x_base" or self.pre is None:
            return
        (x, before), self.pre = self.pre, None
        itp = tr.models.interpolation
        self.shifts += 1
        dist = float(np.linalg.norm(x - itp.x_base)) + float(
            np.max(np.linalg.norm(itp.xpt, axis=0)))
        for (name, h0, ha0, v0, g0, m0, gm0), (_, q, _) in zip(
                before, all_models(tr.models)):
            h1 = np.array(q.hess(itp), dtype=float)
            habs = np.abs(q._e_hess) + (np.abs(itp.xpt) * np.abs(
                q._i_hess)) @ np.abs(itp.xpt).T
            ha = max(ha0, float(np.max(habs, initial=0.0)))
            hmax = max(float(np.max(np.abs(h0), initial=0.0)),
                       float(np.max(np.abs(h1), initial=0.0)))
            if not np.isfinite(ha) or ha > 1e8 * max(hmax, 1e-300):
                continue        # representation dominated by cancellation
            self.judged += 1
            v1 = float(q(x, itp))
            g1 = np.array(q.grad(x, itp), dtype=float)
            m1 = float(interp.mag(q, itp, x))
            tests = (
                ("Hessian", float(np.max(np.abs(h1 - h0), initial=0.0)),
                 ha),
                ("value at the new base", abs(v1 - v0), max(m0, m1)),
                ("gradient at the new base", float(np.max(np.abs(g1 - g0),
                                                           initial=0.0)),
                 max(gm0, float(np.max(np.abs(q._grad), initial=0.0)))
                 + ha * dist))
            for what_, err, scale in tests:
                r = err / (1e4 * EPS * scale) if scale > 0 else (
                    0.0 if err == 0 else np.inf)
                self.worst = max(self.worst, r)
                if r > 1e3 and len(self.viols) < 3:
                    self.viols.append(V(
                        "framework_shift_changes_model",
                        f"TrustRegion.shift_x_base (shift number "
                        f"{self.shifts}) changed the {what_} of model "
                        f"'{name}' by {err:.3g} (magnitude {scale:.3g})",
                        mechanism="framework_shift", model=name))

    def attach(self, r, rec=None):
        r.on("tr.mut.pre", self.on_pre)
        r.on("tr.mut", self.on_post)


def run_real(case):
    from vlib import gen, mrun
    rng = e2e.rng_of(ID, case)
    n = int(rng.integers(2, 5))
    spec = gen.general(rng, n=n, con=str(rng.choice(["none", "nl", "none"])),
                       obj_kinds=("rosen", "quad", "sinq", "exp"),
                       bound_patterns="none", with_callback=False,
                       opt_allow=(), maxfev=(250, 500), xunit=False)
    spec["x0"] = (np.asarray(spec["x0"]) * float(rng.choice(
        [1.0, 3.0]))).tolist()
    if rng.random() < 0.4:
        spec["options"]["nb_points"] = int(rng.integers(
            n + 2, (n + 1) * (n + 2) // 2 + 1))
    for k in ("rtype", "scribble"):
        spec.pop(k, None)
    mon = ShiftMonitor()
    rec = mrun.run(spec, setup=mon.attach)
    counts = e2e.base_counts(rec)
    counts["framework_shifts"] = mon.shifts
    counts["framework_shift_models_judged"] = mon.judged
    viols = list(mon.viols)
    for v in viols:
        v["witness"]["spec"] = spec
    nt = None
    if mon.shifts >= 3:
        nt = f"real|n{n}|{spec['con_kind']}|shifts{min(mon.shifts, 6)}"
    return e2e.record(case, viols, nt=nt, tags=["fam:real"], counts=counts,
                      maxes={"framework_shift_ratio": mon.worst})


def run_case(case):
    if case["fam"] == "long":
        return run_long(case)
    if case["fam"] == "real":
        return run_real(case)
    rng = e2e.rng_of(ID, case)
    jd = Judge()
    with ctx.suspended(), warnings.catch_warnings():
        warnings.simplefilter("ignore")
        n = int(rng.integers(1, 5))
        u = rng.random()
        radius = 1.0
        if u < 0.3:
            radius = float(10.0 ** rng.uniform(-2, 1))
        elif u < 0.45:
            # tiny sets: absolute displacements below 1e-8 (any absolute
            # tolerance in the solver's bookkeeping would show up here)
            radius = float(10.0 ** rng.uniform(-10, -8))
        mcs = [(0, 0), (0, 0), (1, 0), (0, 1), (1, 1), (2, 1)][
            int(rng.integers(6))]
        h = drive.History(rng, n=n, mc_ub=mcs[0], mc_eq=mcs[1],
                          radius=radius)
        itp = h.itp
        nn = h.npt + n + 1
        check_fresh(h, jd, "initial build")
        check_views(h, jd, rng)
        fixed_probes = [itp.x_base + rng.standard_normal(n) * h.radius
                        for _ in range(2)]
        fixed_dirs = [rng.standard_normal(n) * h.radius for _ in range(2)]
        check_model_views(h, jd, fixed_probes, fixed_dirs)
        nonzero_h = False
        for t in range(int(rng.integers(3, 11))):
            if jd.viols:
                break
            check_model_views(h, jd, fixed_probes, fixed_dirs)
            u = rng.random()
            if u < 0.12:
                # base shift: the function must not change at probes
                probes = [itp.x_base + rng.standard_normal(n) * h.radius
                          for _ in range(3)]
                before = [[float(q(p, itp)) for p in probes]
                          for _, q, _ in all_models(h.models)]
                mags = [[float(interp.mag(q, itp, p)) for p in probes]
                        for _, q, _ in all_models(h.models)]
                if h.step("shift") is None:
                    break
                for (name, q, _), b0, mg in zip(all_models(h.models), before,
                                                mags):
                    for p, b, m0 in zip(probes, b0, mg):
                        m1 = float(interp.mag(q, itp, p))
                        jd.count("shift_probes")
                        jd.zone("shift_changes_function",
                                abs(float(q(p, itp)) - b),
                                32 * EPS * max(m0, m1),
                                f"model '{name}': base shift changed the "
                                f"value at a probe point from {b!r} to "
                                f"{float(q(p, itp))!r}")
                continue
            if u < 0.2:
                if h.step("reset") is None:
                    break
                check_fresh(h, jd, "reset")
                continue
            # one-step check of an update
            kind, x_new = h.new_point(str(rng.choice(["near", "near",
                                                       "far"])))
            how, k = h.choose_index(x_new)
            fv, cub, ceq = h.pb(x_new)
            if rng.random() < 0.08:
                # the point replaces ITSELF with other values (a noisy or
                # non-deterministic function evaluated twice at one point):
                # the set is unchanged, the models must still take the new
                # values
                k = int(rng.integers(h.npt))
                x_new = np.array(itp.point(k), copy=True)
                fv, cub, ceq = h.pb(x_new)
                fv = float(fv) + float(rng.standard_normal())
                cub = np.asarray(cub, float) + rng.standard_normal(len(cub))
                ceq = np.asarray(ceq, float) + rng.standard_normal(len(ceq))
                kind = "same_point_new_values"
                jd.count("same_point_updates")
            elif rng.random() < 0.06:
                # a value at the extreme barrier (what an undefined objective
                # value becomes): the update still interpolates it
                fv = 2.0 ** 100
                kind = kind + "+barrier"
            elif rng.random() < 0.12:
                # the new values equal the models' predictions exactly: the
                # correction is zero, the function must not change (only the
                # representation: implicit -> explicit curvature of point k)
                fv = float(h.models.fun(x_new))
                cub = np.array(h.models.cub(x_new), dtype=float)
                ceq = np.array(h.models.ceq(x_new), dtype=float)
                kind = kind + "+exact_prediction"
            vals_new = [fv] + list(cub) + list(ceq)
            before = [exact.model_of(q, itp.xpt)
                      for _, q, _ in all_models(h.models)]
            reps = [rep_mag(q, itp.xpt, cond_scale(itp.xpt)[1])
                    for _, q, _ in all_models(h.models)]
            dd = [float(vals_new[0] - h.models.fun(x_new))]
            dd += [float(c_ - m_) for c_, m_ in zip(cub,
                                                    h.models.cub(x_new))]
            dd += [float(c_ - m_) for c_, m_ in zip(ceq,
                                                    h.models.ceq(x_new))]
            try:
                h.models.update_interpolation(k, x_new, fv, cub, ceq)
            except np.linalg.LinAlgError:
                break
            h.ops.append("update:" + kind)
            cond, scale = cond_scale(itp.xpt)
            if not cond < 1e10:
                jd.count("skipped_singular")
                continue
            X = exact.points_of(itp.xpt)
            for (name, q, _), m0, d, rp in zip(all_models(h.models), before,
                                               dd, reps):
                rhs = [Fr(0)] * h.npt
                rhs[k] = Fr(d)
                up = exact.lfn(X, rhs)
                if up is None:
                    jd.count("skipped_singular")
                    continue
                m1 = exact.model_of(q, itp.xpt)
                err = scaled_diff(m1, m0, scale, up)
                zmag = max(scaled_mag(up, scale), abs(d))
                old = max(scaled_mag(m0, scale), rp,
                          rep_mag(q, itp.xpt, scale))
                jd.count("one_step_checks")
                if scaled_mag(m1, scale) > 0 and fmax(
                        v for r in m1[2] for v in r) > 0:
                    nonzero_h = True
                jd.zone("update_not_lfn_step", err,
                        nn * EPS * (cond * zmag + old),
                        f"update of index {k}: model '{name}' after the "
                        f"update differs from (model before + exact "
                        f"least-Frobenius-norm correction) by {err:.3g} "
                        f"(scaled coefficients, cond {cond:.3g})")
            if rng.random() < 0.4:
                check_views(h, jd, rng)
    counts = dict(jd.counts)
    nt = None
    if h.npt < (n + 1) * (n + 2) // 2 and nonzero_h:
        pat = "".join(o[0] + (o.split(":")[1][:1] if ":" in o else "")
                      for o in h.ops)
        nt = f"n{n}|npt{h.npt}|{pat}"
    for v in jd.viols:
        v["witness"].update({"n": n, "npt": h.npt, "ops": h.ops})
    sample = None
    if case["idx"] < 2:
        sample = {"n": n, "npt": h.npt, "operations": h.ops,
                  "worst_error_over_bound": jd.worst, "counts": counts}
    return e2e.record(case, jd.viols, nt=nt, tags=["fam:driven"],
                      counts=counts, gray=jd.gray, sample=sample,
                      maxes={k: v for k, v in jd.worst.items()})
