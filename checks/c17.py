"""C17 - two-sided user constraints are translated faithfully into the
internal inequality / equality form."""
import itertools
import math
import warnings

import numpy as np

from vlib import e2e, gen, mrun, ctx, truth
from vlib.oracles import V
from vlib.refs import trans

ID = "C17"
LEVEL = "exploration"
EXHAUSTIVE = False
RULE = ("the real LinearConstraints / NonlinearConstraints / "
        "BoundConstraints / _get_constraints / _get_bounds and the reduced "
        "Problem are fed every assignment of {-inf, finite, equal, +inf, "
        "NaN} to (lb, ub) per component - all 25 patterns for 1 component "
        "and all 625 for 2 components (exhaustive), sampled for 3-4 - with "
        "0..3 objects of each kind in random order, scalar-broadcast limits, "
        "NaN coefficients, and values exactly at the limits, one ulp "
        "inside/outside and random; the largest internal violation and the "
        "row counts are compared with the interval reference "
        "(refs/trans.py).  Problem level: after fixed-variable elimination "
        "and scaling the internal residuals at random solver points are "
        "compared with the user-space interval violation at build_x(x).  "
        "Non-trivial = a pattern mixing >=2 limit kinds in one vector "
        "constraint; distinct = limit pattern (+kind of object)")
RULE += ("  Also: families mixmag (a narrow two-sided component next to siblings with limits 1e3..1e305) and near_eq (relative gaps 1e-15..1e-4): 'lb = ub to rounding' is judged per component with a three-decade zone in which both readings are accepted; NaN limits / coefficients at problem level with res.maxcv and Problem.maxcv (called after the run) compared with the interval violation.")
RULE += (" Equalities whose level lies in the last binade; consecutive points agreeing to 8-11 digits at problem level.")
RULE += (' The same constraint objects reused with other limits before the call (translation follows the current limits).')
RULE += (" Repeated coefficient rows with other limits, within one object and across objects.")
RULE += (" Problem level: all variables fixed by the bounds (rows without columns still count in res.maxcv).")
ASSUMPTIONS = [
    "wrong-direction infinite limits (lb=+inf / ub=-inf) are ambiguous in "
    "the statement (interval reading vs documented dropping): both readings "
    "accepted, counted separately",
    "comparison within 8 ulp of the magnitudes involved, half the documented "
    "equality tolerance for lb~ub",
]
REQUIRED = {"linear_objects": 2000, "nonlinear_objects": 2000,
            "value_vectors": 20000, "problem_points": 1000}
MIN_NONTRIVIAL = {"quick": 300, "thorough": 600}
PLAN = [("lin1", 25, 25), ("lin2", 625, 625), ("nl1", 25, 25),
        ("nl2", 625, 625), ("mix", 300, 6000), ("mixmag", 150, 2000),
        ("near_eq", 100, 1500), ("bounds", 100, 1000),
        ("problem", 250, 4000)]
EPS = np.finfo(float).eps
KINDS = ("-inf", "fin", "eq", "+inf", "nan")


def cases(tier, seed):
    return e2e.case_list(PLAN, tier, seed)


def limit_pair(rng, kl, ku):
    """Concrete (lb, ub) for the kinds of the two sides."""
    base = float(rng.uniform(-2, 2))
    w = float(rng.uniform(0.1, 2))

    def side(kind, val):
        return {"-inf": -math.inf, "+inf": math.inf, "nan": math.nan,
                "fin": val, "eq": val}[kind]

    lb = side(kl, base)
    ub = side(ku, base + w)
    if kl == "eq" and ku == "eq":
        lb = ub = base
    elif kl == "eq" and ku == "fin":
        ub = float(np.nextafter(base, math.inf)) if rng.random() < 0.5 \
            else base
        lb = base
    elif ku == "eq" and kl == "fin":
        lb = ub = base + w
    elif kl == "eq":
        lb = base
    elif ku == "eq":
        ub = base + w
    return lb, ub


def values_for(rng, lb, ub):
    """Value vectors exactly at / next to the limits and random."""
    m = len(lb)
    out = []
    for _ in range(6):
        v = np.empty(m)
        for i in range(m):
            cands = [float(rng.uniform(-4, 4))]
            if np.isfinite(lb[i]) and np.isfinite(ub[i]):
                cands += [0.5 * lb[i] + 0.5 * ub[i],
                          lb[i] + float(rng.random()) * (ub[i] - lb[i])]
            for lim in (lb[i], ub[i]):
                if np.isfinite(lim):
                    cands += [lim, float(np.nextafter(lim, math.inf)),
                              float(np.nextafter(lim, -math.inf)),
                              lim + float(rng.uniform(-1, 1))]
            v[i] = cands[int(rng.integers(len(cands)))]
        out.append(v)
    return out


def close(a, b, scale, half):
    if a == b or (math.isnan(a) and math.isnan(b)):
        return True
    if math.isinf(a) or math.isinf(b) or math.isnan(a) or math.isnan(b):
        return False
    return abs(a - b) <= 8 * EPS * scale + half


def internal_linear(lc, x):
    r = [0.0]
    if lc.a_ub.shape[0]:
        r.append(float(np.max(np.maximum(lc.a_ub @ x - lc.b_ub, 0.0))))
    if lc.a_eq.shape[0]:
        r.append(float(np.max(np.abs(lc.a_eq @ x - lc.b_eq))))
    return max(r)


def check_linear(rng, lbs, ubs, viols, counts, coeff_nan=False):
    """lbs/ubs: list (per object) of limit arrays.  A = I so that v = x."""
    from scipy.optimize import LinearConstraint
    from cobyqa.problem import LinearConstraints
    import cobyqa.main as cmain
    m_tot = sum(len(l_) for l_ in lbs)
    n = m_tot
    objs = []
    off = 0
    # column read by each row: the identity, or (repeated rows) some rows
    # read the column of an EARLIER row - the same coefficients stated twice
    # with other limits, in one object or across objects; every stated limit
    # counts
    col = np.arange(m_tot)
    if m_tot > 1 and not coeff_nan and rng.random() < 0.25:
        for i in range(1, m_tot):
            if rng.random() < 0.5:
                col[i] = col[int(rng.integers(0, i))]
        counts["repeated_rows"] = counts.get("repeated_rows", 0) + int(
            np.sum(col != np.arange(m_tot)))
    for lo, hi in zip(lbs, ubs):
        m = len(lo)
        a = np.zeros((m, n))
        a[np.arange(m), col[off + np.arange(m)]] = 1.0
        if coeff_nan and m_tot > 1:
            a[0, (off + 1) % n] = math.nan    # counts as 0
        off += m
        lo_arg, hi_arg = np.array(lo), np.array(hi)
        if m > 1 and len(set(lo)) == 1 and rng.random() < 0.5:
            lo_arg = lo[0]                     # scalar broadcast
        if m > 1 and len(set(hi)) == 1 and rng.random() < 0.5:
            hi_arg = hi[0]
        try:
            with warnings.catch_warnings():
                warnings.simplefilter("ignore")
                objs.append(LinearConstraint(a, lo_arg, hi_arg))
        except ValueError:
            counts["scipy_rejected"] = counts.get("scipy_rejected", 0) + 1
            return
    if rng.random() < 0.2:
        # the SAME constraint objects were used before with other limits
        # (parameter sweep): the translation follows the current limits
        saved = [(np.array(o.lb, copy=True), np.array(o.ub, copy=True))
                 for o in objs]
        try:
            with warnings.catch_warnings():
                warnings.simplefilter("ignore")
                for o in objs:
                    o.lb = np.asarray(o.lb, float) - 1.5
                    o.ub = np.asarray(o.ub, float) + 0.5
                l0, _ = cmain._get_constraints(objs)
                LinearConstraints(l0, n, False)
        except Exception:  # noqa: BLE001
            pass
        for o, (lo_, hi_) in zip(objs, saved):
            o.lb, o.ub = lo_, hi_
        counts["reused_objects"] = counts.get("reused_objects", 0) + 1
    with warnings.catch_warnings():
        warnings.simplefilter("ignore")
        lin_list, nl_list = cmain._get_constraints(objs)
        lc = LinearConstraints(lin_list, n, False)
    counts["linear_objects"] = counts.get("linear_objects", 0) + len(objs)
    lb_all = np.concatenate([np.asarray(l_, float) for l_ in lbs])
    ub_all = np.concatenate([np.asarray(u_, float) for u_ in ubs])
    # row counts (per object tolerance)
    n_ub = n_eq = zone = 0
    amb = False
    for lo, hi in zip(lbs, ubs):
        e = trans.expected(lo, hi, np.zeros(len(lo)))
        n_ub += e["n_ub"]
        n_eq += e["n_eq"]
        zone += e["zone"]
        amb = amb or e["ambiguous"]
    if not amb and not trans.counts_ok(lc.a_ub.shape[0], lc.a_eq.shape[0],
                                       n_ub, n_eq, zone):
        viols.append(V("linear_row_count",
                       f"limits lb={lbs} ub={ubs}: internal rows "
                       f"(ub={lc.a_ub.shape[0]}, eq={lc.a_eq.shape[0]}), "
                       f"expected ({n_ub}, {n_eq})", lb=lbs, ub=ubs))
    for x in values_for(rng, lb_all, ub_all):
        counts["value_vectors"] = counts.get("value_vectors", 0) + 1
        got = internal_linear(lc, x)
        v = x[col]
        want = 0.0
        alt = 0.0
        half = 0.0
        scale = 1.0
        off = 0
        for lo, hi in zip(lbs, ubs):
            e = trans.expected(lo, hi, v[off:off + len(lo)])
            off += len(lo)
            want = max(want, e["viol"])
            alt = max(alt, e["viol_alt"])
            half = max(half, e["half"])
            scale = max(scale, e["scale"])
        if not (close(got, want, scale, half) or close(got, alt, scale, half)):
            viols.append(V("linear_violation",
                           f"linear limits lb={lbs} ub={ubs}, values "
                           f"{v.tolist()}: internal max violation {got!r}, "
                           f"interval violation {want!r}",
                           lb=lbs, ub=ubs, values=v))
            return


def check_nonlinear(rng, lbs, ubs, viols, counts):
    from scipy.optimize import NonlinearConstraint
    from cobyqa.problem import NonlinearConstraints
    import cobyqa.main as cmain
    lb_all = np.concatenate([np.asarray(l_, float) for l_ in lbs])
    ub_all = np.concatenate([np.asarray(u_, float) for u_ in ubs])
    cur = {"v": None}
    objs = []
    off = 0
    for lo, hi in zip(lbs, ubs):
        m = len(lo)

        def fun(x, off=off, m=m):
            return np.array(cur["v"][off:off + m], dtype=float)

        off += m
        lo_arg, hi_arg = np.array(lo), np.array(hi)
        if m > 1 and len(set(lo)) == 1 and rng.random() < 0.5:
            lo_arg = lo[0]
        if m > 1 and len(set(hi)) == 1 and rng.random() < 0.5:
            hi_arg = hi[0]
        try:
            with warnings.catch_warnings():
                warnings.simplefilter("ignore")
                objs.append(NonlinearConstraint(fun, lo_arg, hi_arg))
        except ValueError:
            counts["scipy_rejected"] = counts.get("scipy_rejected", 0) + 1
            return
    counts["nonlinear_objects"] = counts.get("nonlinear_objects", 0) + \
        len(objs)
    first = True
    for k, v in enumerate(values_for(rng, lb_all, ub_all)):
        cur["v"] = v
        try:
            with warnings.catch_warnings():
                warnings.simplefilter("ignore")
                lin_list, nl_list = cmain._get_constraints(objs)
                nc = NonlinearConstraints(nl_list, False, False)
                c_ub, c_eq = nc(np.full(2, float(k)))
        except ValueError:
            counts["scipy_rejected"] = counts.get("scipy_rejected", 0) + 1
            return
        counts["value_vectors"] = counts.get("value_vectors", 0) + 1
        got = max([0.0] + ([float(np.max(np.maximum(c_ub, 0.0)))]
                           if c_ub.size else [])
                  + ([float(np.max(np.abs(c_eq)))] if c_eq.size else []))
        want = alt = half = 0.0
        scale = 1.0
        n_ub = n_eq = zone = 0
        amb = False
        off = 0
        for lo, hi in zip(lbs, ubs):
            e = trans.expected(lo, hi, v[off:off + len(lo)])
            off += len(lo)
            want = max(want, e["viol"])
            alt = max(alt, e["viol_alt"])
            half = max(half, e["half"])
            scale = max(scale, e["scale"])
            n_ub += e["n_ub"]
            n_eq += e["n_eq"]
            zone += e["zone"]
            amb = amb or e["ambiguous"]
        if first and not amb and not trans.counts_ok(c_ub.size, c_eq.size,
                                                     n_ub, n_eq, zone):
            viols.append(V("nonlinear_row_count",
                           f"limits lb={lbs} ub={ubs}: internal components "
                           f"(ub={c_ub.size}, eq={c_eq.size}), expected "
                           f"({n_ub}, {n_eq})", lb=lbs, ub=ubs))
            return
        first = False
        if not (close(got, want, scale, half) or close(got, alt, scale, half)):
            viols.append(V("nonlinear_violation",
                           f"nonlinear limits lb={lbs} ub={ubs}, values "
                           f"{v.tolist()}: internal max violation {got!r}, "
                           f"interval violation {want!r}",
                           lb=lbs, ub=ubs, values=v))
            return


def pattern_key(kind, kl, ku):
    return kind + ":" + ";".join(a + "/" + b for a, b in zip(kl, ku))


def run_case(case):
    with ctx.suspended():
        return _run_case(case)


def _run_case(case):
    rng = e2e.rng_of(ID, case)
    fam = case["fam"]
    viols = []
    counts = {}
    nt = []
    sample = None
    if fam in ("lin1", "nl1", "lin2", "nl2"):
        m = 1 if fam.endswith("1") else 2
        combos = list(itertools.product(KINDS, repeat=2 * m))
        combo = combos[case["idx"] % len(combos)]
        kl, ku = combo[:m], combo[m:]
        for rep in range(3):
            pairs = [limit_pair(rng, a, b) for a, b in zip(kl, ku)]
            lbs = [[p[0] for p in pairs]]
            ubs = [[p[1] for p in pairs]]
            if fam.startswith("lin"):
                check_linear(rng, lbs, ubs, viols, counts,
                             coeff_nan=(rep == 2))
            else:
                check_nonlinear(rng, lbs, ubs, viols, counts)
        if len(set(zip(kl, ku))) > 1 or m == 1:
            nt.append(pattern_key(fam[:-1], kl, ku))
        if case["idx"] < 2:
            sample = {"family": fam, "lb_kinds": kl, "ub_kinds": ku,
                      "example_limits": [lbs, ubs]}
    elif fam == "mix":
        nobj = int(rng.integers(1, 4))
        lbs, ubs, keys = [], [], []
        for _ in range(nobj):
            m = int(rng.integers(1, 5))
            kl = [str(rng.choice(KINDS)) for _ in range(m)]
            ku = [str(rng.choice(KINDS)) for _ in range(m)]
            if rng.random() < 0.3:
                kl = [kl[0]] * m
            pairs = [limit_pair(rng, a, b) for a, b in zip(kl, ku)]
            if rng.random() < 0.3 and kl[0] in ("-inf", "nan", "+inf"):
                pairs = [(pairs[0][0], p[1]) for p in pairs]
            lbs.append([p[0] for p in pairs])
            ubs.append([p[1] for p in pairs])
            if len(set(zip(kl, ku))) > 1:
                keys.append(pattern_key("mix", kl, ku))
        check_linear(rng, lbs, ubs, viols, counts,
                     coeff_nan=bool(rng.random() < 0.2))
        check_nonlinear(rng, lbs, ubs, viols, counts)
        nt += keys
    elif fam in ("mixmag", "near_eq"):
        # (mixmag) a narrow two-sided component next to a sibling with huge
        # limits in the SAME object: whether lb_i = ub_i "to rounding" is a
        # matter of component i alone; (near_eq) limits that differ by
        # 1e-15..1e-4 relative to their own magnitude
        nobj = int(rng.integers(1, 3))
        lbs, ubs = [], []
        for _ in range(nobj):
            m = int(rng.integers(2, 5))
            lo = np.empty(m)
            hi = np.empty(m)
            for i in range(m):
                r = rng.random()
                if fam == "mixmag" and (i == 0 or r < 0.3):
                    big = 10.0 ** (rng.uniform(3, 15) if rng.random() < 0.75
                                   else rng.uniform(100, 308.2))
                    k = int(rng.integers(5))
                    if k == 4 and rng.random() < 0.5:
                        # an equality whose level is in the last binade
                        big = 10.0 ** rng.uniform(307.96, 308.2)
                    big = min(big, 1.7e308)
                    lo[i], hi[i] = [(-big, big), (-math.inf, big),
                                    (-big, math.inf),
                                    (big, min(big * (1 + rng.uniform(0, 1)),
                                              1.79e308)),
                                    (big, big)][k]
                elif fam == "mixmag":
                    base = float(rng.choice([0.0, rng.uniform(-2, 2),
                                             10.0 ** rng.uniform(-6, 0)]))
                    gap = 10.0 ** rng.uniform(-11, -1)
                    lo[i], hi[i] = base, base + gap
                else:
                    base = float(rng.choice([-1.0, 1.0])) * \
                        10.0 ** rng.uniform(-3, 6)
                    rel = 10.0 ** rng.uniform(-15.5, -4)
                    lo[i], hi[i] = sorted((base, base * (1.0 + rel)))
            lbs.append(lo.tolist())
            ubs.append(hi.tolist())
        # values: at / between / just outside the limits of each component
        check_linear(rng, lbs, ubs, viols, counts)
        check_nonlinear(rng, lbs, ubs, viols, counts)
        nt.append(f"{fam}:objs{nobj}:m{'+'.join(str(len(t)) for t in lbs)}"
                  f":{case['idx'] % 50}")
        if case["idx"] < 2:
            sample = {"family": fam, "example_limits": [lbs, ubs]}
    elif fam == "bounds":
        from scipy.optimize import Bounds
        from cobyqa.problem import BoundConstraints
        import cobyqa.main as cmain
        n = int(rng.integers(1, 5))
        kl = [str(rng.choice(("-inf", "fin", "nan"))) for _ in range(n)]
        ku = [str(rng.choice(("+inf", "fin", "nan"))) for _ in range(n)]
        pairs = [limit_pair(rng, a, b) for a, b in zip(kl, ku)]
        lb = np.array([p[0] for p in pairs])
        ub = np.array([p[1] for p in pairs])
        form = str(rng.choice(["Bounds", "array"]))
        with warnings.catch_warnings():
            warnings.simplefilter("ignore")
            arg = Bounds(lb, ub) if form == "Bounds" else np.stack([lb, ub],
                                                                   axis=1)
            bc = BoundConstraints(cmain._get_bounds(arg, n))
        el = np.where(np.isnan(lb), -np.inf, lb)
        eu = np.where(np.isnan(ub), np.inf, ub)
        counts["bound_objects"] = 1
        if not (np.array_equal(bc.xl, el) and np.array_equal(bc.xu, eu)):
            viols.append(V("bounds_sanitising",
                           f"bounds lb={lb.tolist()} ub={ub.tolist()} became "
                           f"xl={bc.xl.tolist()} xu={bc.xu.tolist()}"))
        for _ in range(5):
            x = rng.uniform(-4, 4, n)
            p = bc.project(x)
            if not np.array_equal(p, np.clip(x, el, eu)):
                viols.append(V("bounds_projection",
                               f"project({x.tolist()}) = {p.tolist()}"))
                break
        nt.append("bounds:" + ";".join(a + "/" + b for a, b in zip(kl, ku)))
    else:  # problem level
        spec = gen.general(rng, xunit=False, con=str(rng.choice(["lin", "both"])),
                           bound_patterns=("two", "fixed", "two", "lower",
                                           "free"),
                           maxfev=(1, 1), opt_allow=("scale",))
        spec["options"]["maxfev"] = 1
        if rng.random() < 0.5:
            # all two-sided finite so that scaling applies
            b = spec.get("bounds")
            if b:
                lo = np.array([t if np.isfinite(t) else -3.0
                               for t in gen.np.asarray(b["lb"], float)])
                hi = np.array([t if np.isfinite(t) else 3.0
                               for t in gen.np.asarray(b["ub"], float)])
                hi = np.maximum(hi, lo)
                b["lb"], b["ub"] = lo.tolist(), hi.tolist()
                spec["options"]["scale"] = True
        nan_entries = False
        if rng.random() < 0.4 and spec.get("lin"):
            # undefined entries in the linear data: NaN coefficients count as
            # 0, NaN limits mean no limit - also in the violation the solver
            # REPORTS (res.maxcv) and uses (Problem.maxcv)
            nan_entries = True
            for lc in spec["lin"]:
                a = np.array(lc["A"], dtype=float)
                lo = np.array(np.broadcast_to(np.asarray(lc["lb"], float),
                                              (a.shape[0],)), dtype=float)
                hi = np.array(np.broadcast_to(np.asarray(lc["ub"], float),
                                              (a.shape[0],)), dtype=float)
                u = rng.random()
                if u < 0.5:
                    a[int(rng.integers(a.shape[0])),
                      int(rng.integers(a.shape[1]))] = math.nan
                if u > 0.3:
                    i = int(rng.integers(a.shape[0]))
                    if rng.random() < 0.5:
                        lo[i] = math.nan
                    else:
                        hi[i] = math.nan
                lc["A"], lc["lb"], lc["ub"] = a.tolist(), lo.tolist(), \
                    hi.tolist()
        if rng.random() < 0.1:
            # every variable fixed by the bounds: the linear rows have no
            # column left, their violation at the fixed point still counts
            xf0 = np.asarray(spec["x0"], float) + rng.uniform(
                -1, 1, spec["n"])
            spec["bounds"] = {"lb": xf0.tolist(), "ub": xf0.tolist(),
                              "form": "Bounds",
                              "patterns": ["fixed"] * spec["n"]}
            spec["options"].pop("nb_points", None)
            counts["all_fixed_problems"] = 1
        rec = mrun.run(spec)
        pb = rec.run.pb
        if pb is None or not pb.bounds.is_feasible:
            return e2e.record(case, [], tags=["fam:problem", "skip"],
                              skipped=True)
        bt = rec.built
        if rec.res is not None and not bt.nl:
            # the violation reported for the returned point
            xr = np.asarray(rec.res.x, dtype=float)
            lv, lmag = truth.linear_violation(bt, xr)
            want = float(np.max(lv, initial=0.0))
            got = float(rec.res.maxcv)
            tolr = 64 * EPS * (float(np.max(lmag, initial=0.0)) + 1.0)
            counts["reported_maxcv_checked"] = 1
            if not (abs(got - want) <= tolr):
                viols.append(V(
                    "reported_violation",
                    f"res.maxcv={got!r} but the interval violation of the "
                    f"user's linear constraints at res.x is {want!r}"
                    + (" (NaN entries in the linear data)" if nan_entries
                       else ""),
                    mechanism="nan_entries" if nan_entries else "plain",
                    spec=e2e.jsonable(spec)))
        if pb.n == 0:
            return e2e.record(case, viols[:5], tags=["fam:problem",
                                                     "all_fixed"],
                              counts=counts, nt=["problem:all_fixed"])
        xl = np.where(np.isfinite(pb.bounds.xl), pb.bounds.xl,
                      np.where(np.isfinite(pb.bounds.xu),
                               pb.bounds.xu - 3.0, -3.0))
        xu = np.where(np.isfinite(pb.bounds.xu), pb.bounds.xu, xl + 3.0)
        worst = 0.0
        x_prev = None
        for it in range(8):
            x = xl + rng.random(pb.n) * (xu - xl)
            if it % 2 == 1 and x_prev is not None:
                # a point that agrees with the previous one to 8-9 digits:
                # its violation is its own (nothing may be reused)
                x = np.clip(x_prev + (xu - xl) * 10.0 ** rng.uniform(-11, -8)
                            * rng.choice([-1.0, 1.0], pb.n), xl, xu)
            x_prev = x
            from vlib import oracles as _orc
            xf = _orc.user_of(rec, pb, x)
            got = internal_linear(pb.linear, x)
            lv, lmag = truth.linear_violation(bt, xf)
            want = float(np.max(lv, initial=0.0))
            if not bt.nl:
                # the violation function the solver itself uses (after the
                # run: calling it cannot influence anything)
                with warnings.catch_warnings():
                    warnings.simplefilter("ignore")
                    gm = float(pb.maxcv(x))
                bvl = float(np.max(truth.bound_violation(xf, bt.lb, bt.ub),
                                   initial=0.0))
                counts["problem_maxcv_checked"] = counts.get(
                    "problem_maxcv_checked", 0) + 1
                if not (abs(gm - max(want, bvl)) <= 64 * EPS * (
                        float(np.max(lmag, initial=0.0)) + 1.0) + max(
                        trans.expected(lc["lb"], lc["ub"], np.zeros(
                            len(lc["lb"])))["half"] for lc in bt.lin)):
                    viols.append(V(
                        "problem_maxcv",
                        f"Problem.maxcv(x)={gm!r} but the interval violation "
                        f"at build_x(x) is {max(want, bvl)!r}",
                        mechanism="nan_entries" if nan_entries else "plain",
                        spec=e2e.jsonable(spec)))
                    break
            fin = np.concatenate([bt.lb[np.isfinite(bt.lb)],
                                  bt.ub[np.isfinite(bt.ub)]])
            sc = max(1.0, float(np.max(np.abs(fin))) if fin.size else 1.0)
            amax = max(float(np.max(np.abs(np.where(np.isnan(lc["A"]), 0.0,
                                                    lc["A"])))) for lc
                       in bt.lin)
            tol = 64 * EPS * (float(np.max(lmag, initial=0.0))
                              + amax * sc * bt.n) + max(
                trans.expected(lc["lb"], lc["ub"],
                               np.zeros(len(lc["lb"])))["half"]
                for lc in bt.lin)
            counts["problem_points"] = counts.get("problem_points", 0) + 1
            err = abs(got - want)
            worst = max(worst, err / tol)
            if err > tol:
                viols.append(V(
                    "reduced_problem_residual",
                    f"after fixed-variable elimination/scaling the internal "
                    f"linear violation at x is {got!r} but the user-space "
                    f"interval violation at build_x(x) is {want!r}",
                    mechanism="scale" if spec["options"].get("scale")
                    else "reduce", spec=e2e.jsonable(spec)))
                break
        nfix = int(np.count_nonzero(pb._fixed_idx)) \
            if hasattr(pb, "_fixed_idx") else 0
        nt.append("problem:fixed%d:scale%d:rows%d" % (
            nfix, bool(spec["options"].get("scale")),
            pb.linear.a_ub.shape[0] + pb.linear.a_eq.shape[0]))
        if case["idx"] < 2:
            sample = {"spec": e2e.spec_brief(spec), "fixed": nfix,
                      "worst_error_over_tol": worst}
    return e2e.record(case, viols[:5], nt=nt or None, tags=["fam:" + fam],
                      counts=counts, sample=sample)
