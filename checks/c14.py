"""C14 - determinant ratios used to choose and rate interpolation points."""
import warnings

import numpy as np
from fractions import Fraction as Fr

from vlib import e2e, gen, mrun, ctx, drive, interp
from vlib.oracles import V
from vlib.refs import exact

ID = "C14"
LEVEL = "exploration"
RULE = ("poised interpolation sets reached by random update histories on a "
        "real Models (n=1..4, every admissible nb_points, 0..12 "
        "replacements / shifts); for candidate points within a few radii and "
        "EVERY index k, Models.determinants(x_new, k) and "
        "Models.determinants(x_new)[k] are compared with alpha_k*beta+tau_k^2 "
        "computed in exact rational arithmetic from the exact inverse of the "
        "KKT matrix (cross-checked against det(W_new)/det(W_old) computed "
        "directly by exact elimination); also a sample of the solver's own "
        "determinant queries in real runs (tap on Models.determinants).  "
        "Non-trivial = set reached after >=3 replacements and candidate not "
        "on a coordinate axis; distinct = (n, npt, history-length bucket, "
        "index)")
RULE += ("  Also: the order of queries on one set varies (all indices first / one index first / shuffled); in real runs the index handed to update_interpolation must be the one get_index_to_remove chose FOR THE INSERTED POINT (tap pair), on problems rich in second-order corrections.")
RULE += (" The point inserted after a geometry step is the point the step was rated for; more real runs with constraints and bounds.")
RULE += (' The conditioning allowance is capped by the centred set; settled real runs are queried late.')
RULE += (" Queries that fail (undefined candidate) precede valid queries on the same set.")
ASSUMPTIONS = [
    "tolerance N*eps*cond2(scaled KKT)*(|alpha|*(|s|^4/2+sum|w_i y_i|)+tau^2) (the terms beta is a difference of): held <= 1e3x, "
    "violation > 1e6x, sets with cond2 > 1e8 skipped (no claim)",
    "the exact reference (Fraction elimination) is the trusted base; its two "
    "formulas (updating formula vs direct determinant ratio) are "
    "cross-checked on every set",
]
REQUIRED = {"ratios_checked": 3000, "direct_ratio_crosschecks": 100,
            "solver_queries_checked": 20,
            "geometry_steps_rating_checked": 100,
            "replacement_point_checked": 500,
            "replacement_after_soc_checked": 5}
MIN_NONTRIVIAL = {"quick": 100, "thorough": 800}
PLAN = [("driven", 720, 5000), ("real", 200, 2400)]
EPS = np.finfo(float).eps


def cases(tier, seed):
    return e2e.case_list(PLAN, tier, seed)


def exact_inverse(W):
    n = len(W)
    M = [row[:] + [Fr(int(i == j)) for j in range(n)]
         for i, row in enumerate(W)]
    for c in range(n):
        p = next((r for r in range(c, n) if M[r][c] != 0), None)
        if p is None:
            return None
        M[c], M[p] = M[p], M[c]
        inv = 1 / M[c][c]
        M[c] = [v * inv for v in M[c]]
        for r in range(n):
            if r != c and M[r][c] != 0:
                f = M[r][c]
                M[r] = [a - f * b for a, b in zip(M[r], M[c])]
    return [row[n:] for row in M]


def exact_sigmas(X, winv, shift, scale, cond):
    """Exact alpha, beta, tau, sigma for replacing each index by base+shift,
    and a first-principles bound on the rounding error of the float result.

    The solver solves the *scaled* system a y = rhs*rs (x = y*rs) by an
    eigendecomposition, so the error of a solution is norm-wise:
    |dx_i| <= rs_i * N*eps*cond2(a) * |y|_2.  With alpha = x_k (rhs e_k),
    tau = x'_k and beta = |s|^4/2 - w.x' (rhs w):
      d_alpha = rs_k*K*|y_k|, d_tau = rs_k*K*|y'|,
      d_beta  = K*|y'|*|w*rs| + eps*(|s|^4/2 + sum|w_i x'_i|),
      d_sigma = |beta| d_alpha + |alpha| d_beta + d_alpha d_beta
                + 2|tau| d_tau + d_tau^2 + eps*(|alpha beta| + tau^2)."""
    npt = len(X)
    n = len(shift)
    nn = npt + n + 1
    rs = np.empty(nn)
    rs[:npt] = 1.0 / scale ** 2
    rs[npt] = scale ** 2
    rs[npt + 1:] = scale
    kk = nn * EPS * cond
    w = [sum(a * b for a, b in zip(X[k], shift)) ** 2 / 2 for k in range(npt)]
    w += [Fr(1)] + list(shift)
    y = [sum(winv[i][j] * w[j] for j in range(nn)) for i in range(nn)]
    ss = sum(a * a for a in shift)
    beta = ss * ss / 2 - sum(a * b for a, b in zip(w, y))
    beta_mag = float(ss * ss / 2) + float(sum(abs(a * b)
                                              for a, b in zip(w, y)))
    yf = np.array([float(v) for v in y])
    wf = np.array([float(v) for v in w])
    ny1 = float(np.linalg.norm(yf / rs))
    nr = float(np.linalg.norm(wf * rs))
    d_beta = kk * ny1 * nr + 4 * EPS * beta_mag
    out = []
    for k in range(npt):
        alpha = winv[k][k]
        tau = y[k]
        col = np.array([float(winv[i][k]) for i in range(nn)])
        d_alpha = rs[k] * kk * float(np.linalg.norm(col / rs))
        d_tau = rs[k] * kk * ny1
        fa, fb, ft = abs(float(alpha)), abs(float(beta)), abs(float(tau))
        raw = (fb * d_alpha + fa * d_beta + d_alpha * d_beta
               + 2 * ft * d_tau + d_tau ** 2 + 4 * EPS * (fa * fb + ft * ft))
        out.append((alpha, beta, tau, alpha * beta + tau * tau, raw))
    return out


def judge(got, ex, cond, nn, viols, where, info):
    alpha, beta, tau, sigma, raw = ex
    ref = float(sigma)
    if raw <= 0 or not np.isfinite(raw):
        info["skipped"] = info.get("skipped", 0) + 1
        return
    info["checked"] = info.get("checked", 0) + 1
    ratio = abs(float(got) - ref) / raw
    info["worst"] = max(info.get("worst", 0.0), ratio)
    if not (ratio <= 1e3):
        if len(viols) < 3:
            viols.append(V(
                "determinant_ratio",
                f"{where}: determinants() = {float(got)!r} but the exact "
                f"ratio det(W_new)/det(W_old) = {ref!r} (error/bound "
                f"{ratio:.3g}, cond {cond:.3g})", mechanism="sigma",
                got=float(got), exact=ref))
    elif ratio > 1.0:
        info["gray"] = info.get("gray", 0) + 1


def check_set(models, rng, viols, info, n_cand=3, crosscheck=True):
    itp = models.interpolation
    scale, ev, vec, big = interp.sysinfo(itp.xpt)
    if ev is None:
        return
    cond = np.abs(ev).max() / np.abs(ev).min()
    if not np.isfinite(cond) or cond > 1e11:
        info["sets_skipped"] = info.get("sets_skipped", 0) + 1
        return
    X = exact.points_of(itp.xpt)
    W = exact.kkt(X)
    winv = exact_inverse(W)
    if winv is None:
        info["sets_skipped"] = info.get("sets_skipped", 0) + 1
        return
    info["sets"] = info.get("sets", 0) + 1
    nn = itp.npt + itp.n + 1
    d0 = exact.det(W) if crosscheck else None
    for c in range(n_cand):
        kind = str(rng.choice(["near", "axis", "far", "at_point"],
                              p=[0.5, 0.1, 0.2, 0.2]))
        if kind == "axis":
            s = np.zeros(itp.n)
            s[int(rng.integers(itp.n))] = scale * rng.uniform(-2, 2)
        elif kind == "far":
            s = rng.standard_normal(itp.n) * scale * 4
        elif kind == "at_point":
            xj = itp.xpt[:, int(rng.integers(itp.npt))]
            if rng.random() < 0.5:
                s = xj * (1 + 1e-3 * rng.standard_normal())
            else:
                # next to an interpolation point (100..1e5 times closer to
                # it than to the base point), in any direction
                s = xj + rng.standard_normal(itp.n) * float(
                    np.linalg.norm(xj) + 1e-3 * scale) * 10.0 ** rng.uniform(
                        -5, -2)
        else:
            s = rng.standard_normal(itp.n) * scale
        x_new = itp.x_base + s
        shift = [Fr(float(a)) - Fr(float(b)) for a, b in zip(x_new,
                                                             itp.x_base)]
        ex = exact_sigmas(X, winv, shift, scale, cond)
        if rng.random() < 0.3:
            # a query that FAILS (undefined candidate) comes first: whatever
            # it raises, the answers to the later queries on this set are
            # those of the set
            bad = np.array(x_new, copy=True)
            bad[int(rng.integers(itp.n))] = float(rng.choice(
                [np.nan, np.inf, -np.inf]))
            with warnings.catch_warnings():
                warnings.simplefilter("ignore")
                try:
                    if rng.random() < 0.7:
                        models.determinants(bad, int(rng.integers(itp.npt)))
                    else:
                        models.determinants(bad)
                except Exception:  # noqa: BLE001
                    pass
            info["failed_query_first"] = info.get("failed_query_first", 0) + 1
        with warnings.catch_warnings():
            warnings.simplefilter("ignore")
            try:
                # the order of the queries on one and the same set varies:
                # all indices first; ONE index first (a value memoised for a
                # set must not corrupt later answers); random single order
                order = str(rng.choice(["all_first", "single_first",
                                        "shuffled"]))
                one = [None] * itp.npt
                ks = list(range(itp.npt))
                if order == "shuffled":
                    ks = [int(v) for v in rng.permutation(itp.npt)]
                if order == "all_first":
                    allsig = models.determinants(x_new)
                    for k in ks:
                        one[k] = models.determinants(x_new, k)
                else:
                    cut = int(rng.integers(1, max(2, itp.npt)))
                    for k in ks[:cut]:
                        one[k] = models.determinants(x_new, k)
                    allsig = models.determinants(x_new)
                    for k in ks[cut:]:
                        one[k] = models.determinants(x_new, k)
                info["order:" + order] = info.get("order:" + order, 0) + 1
            except np.linalg.LinAlgError:
                info["linalg"] = info.get("linalg", 0) + 1
                continue
        for k in range(itp.npt):
            judge(allsig[k], ex[k], cond, nn, viols,
                  f"all-indices form, index {k}", info)
            judge(one[k], ex[k], cond, nn, viols,
                  f"single-index form, index {k}", info)
            info.setdefault("keys", set()).add(
                (kind != "axis", k))
        if crosscheck and c == 0 and d0 != 0:
            k = int(rng.integers(itp.npt))
            X2 = [row[:] for row in X]
            X2[k] = shift
            direct = exact.det(exact.kkt(X2)) / d0
            info["cross"] = info.get("cross", 0) + 1
            if direct != ex[k][3]:  # noqa
                viols.append(V("reference_inconsistent",
                               "exact updating formula and exact direct "
                               "determinant ratio disagree (harness bug)",
                               mechanism="harness"))


def run_driven(case):
    rng = e2e.rng_of(ID, case)
    viols = []
    info = {}
    with ctx.suspended():
        n = int(rng.integers(1, 5))
        h = drive.History(rng, n=n, mc_ub=0, mc_eq=0)
        nrep = int(rng.integers(0, 13))
        done = 0
        if rng.random() < 0.25:
            # cluster far from the base point (no base shift): every point is
            # moved next to x_base + R*u with R = 5..100 cluster radii
            itp = h.itp
            u = rng.standard_normal(n)
            u /= np.linalg.norm(u)
            rad = h.radius * float(10.0 ** rng.uniform(-2, 0))
            centre = itp.x_base + u * rad * float(rng.uniform(5, 100))
            for k in range(h.npt):
                x_new = centre + rng.standard_normal(n) * rad
                fv, cub, ceq = h.pb(x_new)
                try:
                    with warnings.catch_warnings():
                        warnings.simplefilter("ignore")
                        h.models.update_interpolation(k, x_new, fv, cub, ceq)
                except np.linalg.LinAlgError:
                    break
                h.ops.append("update:cluster")
                done += 1
            nrep = int(rng.integers(0, 4))
        for _ in range(nrep):
            d = h.step("shift" if rng.random() < 0.1 else "update")
            if d is None:
                break
            done += 1
        check_set(h.models, rng, viols, info,
                  n_cand=3 if h.npt <= 8 else 2)
    nt = None
    keys = info.pop("keys", set())
    if done >= 3 and any(k[0] for k in keys):
        nt = [f"n{h.n}|npt{h.npt}|h{min(done // 4, 3)}|k{k[1]}"
              for k in keys if k[0]]
    counts = {"ratios_checked": info.get("checked", 0),
              "ratios_skipped": info.get("skipped", 0),
              "sets_checked": info.get("sets", 0),
              "sets_skipped_singular": info.get("sets_skipped", 0),
              "direct_ratio_crosschecks": info.get("cross", 0),
              "failed_query_first": info.get("failed_query_first", 0)}
    for v in viols:
        v["witness"].update({"n": h.n, "npt": h.npt, "ops": h.ops})
    sample = None
    if case["idx"] < 2:
        sample = {"n": h.n, "npt": h.npt, "operations": h.ops,
                  "ratios_checked": info.get("checked", 0),
                  "worst_error_over_bound": info.get("worst")}
    return e2e.record(case, viols, nt=nt, tags=["fam:driven"], counts=counts,
                      gray=info.get("gray", 0), sample=sample,
                      maxes={"error_over_bound": info.get("worst", 0.0)})


def run_real(case):
    rng = e2e.rng_of(ID, case)
    spec = gen.general(rng, n=int(rng.integers(1, 4)), maxfev=(30, 80),
                       forms=("nlc",), with_faults=bool(rng.random() < 0.3),
                       con=str(rng.choice(["none", "lin", "nl", "both"],
                                          p=[0.2, 0.3, 0.3, 0.2])))
    if rng.random() < 0.35:
        # constraints AND bounds with x0 on the box: the tangential geometry
        # candidate (rated before it is clipped) regularly crosses a bound
        spec = gen.general(rng, n=int(rng.integers(2, 4)), maxfev=(40, 100),
                           forms=("nlc",), con=str(rng.choice(["lin", "nl",
                                                               "both"])),
                           bound_patterns=("two", "narrow", "two"),
                           x0_where=str(rng.choice(["on", "inside"])),
                           with_callback=False)
    elif rng.random() < 0.45:
        # curved feasible set hugging a face of the box: second-order
        # correction steps abound (the C01 'soc' generator)
        from checks import c01
        spec = c01.make_spec({"id": case["id"], "fam": "soc",
                              "idx": case["idx"], "seed": case["seed"]})
    late = False
    if rng.random() < 0.15:
        # a quadratic with a full model: the minimiser is found within a few
        # steps and stays the best point over many reductions of the
        # resolution (queries are sampled late in the run)
        n_ = 2
        spec = gen.general(rng, n=n_, con="none", bound_patterns="none",
                           obj_kinds=("quad",), with_callback=False,
                           opt_allow=(), maxfev=(250, 300))
        spec["options"]["nb_points"] = (n_ + 1) * (n_ + 2) // 2
        spec["options"]["radius_final"] = 1e-8
        spec.pop("rtype", None)
        late = True
    viols = []
    info = {}
    budget = {"left": 8 if late else 4}
    seen = {"n": 0}

    def on_det(run, models, args, out):
        seen["n"] += 1
        if late and seen["n"] < 25:
            return
        if budget["left"] <= 0 or rng.random() > (0.5 if late else 0.2):
            return
        itp = models.interpolation
        if itp.n > 4:
            return
        scale, ev, vec, big = interp.sysinfo(itp.xpt)
        if ev is None:
            return
        cond = np.abs(ev).max() / np.abs(ev).min()
        # The conditioning the property grants is that of the SET: the ratio
        # is invariant under a change of base point, and the solver keeps its
        # base within large_shift_factor radii of the best point.  A base left
        # far behind (never shifted) inflates the conditioning of the system
        # the solver solves, not of the question asked: the allowance is
        # capped at 1e6 times the conditioning of the centred set.
        capped = False
        ctr = itp.xpt - np.mean(itp.xpt, axis=1, keepdims=True)
        _s2, ev2, _v2, _b2 = interp.sysinfo(ctr)
        if ev2 is not None and np.abs(ev2).min() > 0:
            cond_c = np.abs(ev2).max() / np.abs(ev2).min()
            if np.isfinite(cond_c) and cond_c * 1e6 < cond:
                # (on the unchanged tree cond / cond_c stays below 2e5 over
                # thousands of queries; when the cap binds the set itself is
                # required to be benign, cond_c <= 1e6)
                info["base_far_behind"] = info.get("base_far_behind", 0) + 1
                cond = cond_c * 1e6 if cond_c <= 1e6 else np.inf
                capped = True
        if not np.isfinite(cond) or cond > (1e12 if capped else 1e8):
            return
        budget["left"] -= 1
        X = exact.points_of(itp.xpt)
        winv = exact_inverse(exact.kkt(X))
        if winv is None:
            return
        x_new = np.array(args[0], dtype=float)
        k_new = args[1] if len(args) > 1 else None
        shift = [Fr(float(a)) - Fr(float(b)) for a, b in zip(x_new,
                                                             itp.x_base)]
        ex = exact_sigmas(X, winv, shift, scale, cond)
        nn = itp.npt + itp.n + 1
        if k_new is None:
            for k in range(itp.npt):
                judge(out[k], ex[k], cond, nn, viols,
                      f"solver query (all indices), index {k}", info)
        else:
            judge(out, ex[k_new], cond, nn, viols,
                  f"solver query, index {k_new}", info)
        info["queries"] = info.get("queries", 0) + 1

    geo = {"active": False, "queries": [], "checked": 0}

    def on_geo_pre(run, tr, args):
        geo["active"] = True
        geo["queries"] = []

    def on_det_any(run, models, args, out):
        if geo["active"]:
            geo["queries"].append(np.array(args[0], dtype=float, copy=True))

    def on_geo_post(run, tr, args, out):
        geo["active"] = False
        step = np.asarray(out, dtype=float)
        if not np.all(np.isfinite(step)) or not geo["queries"]:
            return
        xb = np.array(tr.x_best, dtype=float)
        target = xb + step
        geo["last_target"] = target.copy()
        geo["last_xb"] = xb.copy()
        sn = float(np.linalg.norm(step))
        dist = min(float(np.linalg.norm(q - target)) for q in geo["queries"])
        geo["checked"] += 1
        # the returned step is one of the rated candidates (the third one is
        # clipped onto the box after being rated: allow 2% of its length)
        if dist > 2e-2 * sn + 64 * EPS * float(np.max(np.abs(target))
                                                 + 1.0):
            if len(viols) < 3:
                viols.append(V(
                    "geometry_step_not_rated",
                    f"get_geometry_step returned a step of length {sn:.3g} "
                    f"whose point was never passed to the determinant ratio "
                    f"(closest rated candidate at distance {dist:.3g}): the "
                    f"step was chosen without being rated",
                    mechanism="unrated_geometry_step"))

    last_rm = {"x": None, "k": None, "checked": 0, "soc": 0}

    def on_remove(run, tr, x_new, out):
        last_rm["x"] = None if x_new is None else np.array(x_new, dtype=float,
                                                           copy=True)
        last_rm["k"] = out[0] if isinstance(out, tuple) else out

    def on_update_pre(run, models, args):
        # the index to replace was decided by determinant ratios computed FOR
        # THE POINT THAT IS INSERTED (after a second-order correction the
        # inserted point is the corrected one)
        k_new, x_ins = args[0], np.asarray(args[1], dtype=float)
        if last_rm["x"] is None and geo.get("last_target") is not None:
            # geometry branch: the inserted point is the point the geometry
            # step was rated for (x_best + the step get_geometry_step
            # returned), not a modified one
            tgt = geo["last_target"]
            geo["last_target"] = None
            sn = float(np.linalg.norm(tgt - geo["last_xb"]))
            dist = float(np.linalg.norm(x_ins - tgt))
            geo["ins_checked"] = geo.get("ins_checked", 0) + 1
            if dist > 1e-3 * sn + 64 * EPS * float(
                    np.max(np.abs(tgt)) + 1.0):
                if len(viols) < 3:
                    viols.append(V(
                        "geometry_point_not_the_rated_one",
                        f"the point inserted after a geometry step "
                        f"({x_ins.tolist()}) is at distance {dist:.3g} from "
                        f"the rated point x_best + step "
                        f"({tgt.tolist()}, step length {sn:.3g})",
                        mechanism="geometry_point_modified"))
        if last_rm["x"] is not None:
            last_rm["checked"] += 1
            if run.next_kind == "soc" or (run.evals and
                                          run.evals[-1]["kind"] == "soc"):
                last_rm["soc"] += 1
            if last_rm["x"].tobytes() != x_ins.tobytes() or \
                    last_rm["k"] != k_new:
                if len(viols) < 3:
                    viols.append(V(
                        "replacement_rated_at_other_point",
                        f"update_interpolation inserts "
                        f"{x_ins.tolist()} at index {k_new}, but the index "
                        f"to remove ({last_rm['k']}) was chosen from the "
                        f"determinant ratios of {last_rm['x'].tolist()}",
                        mechanism="index_for_other_point"))
        last_rm["x"] = None

    def setup(r, rec):
        r.on("tr.remove", on_remove)
        r.on("models.update.pre", on_update_pre)
        r.on("models.det.post", on_det)
        r.on("step.geo.pre", on_geo_pre)
        r.on("models.det.post", on_det_any)
        r.on("step.geo.post", on_geo_post)

    rec = mrun.run(spec, setup=setup)
    counts = e2e.base_counts(rec)
    counts.update({"ratios_checked": info.get("checked", 0),
                   "solver_queries_checked": info.get("queries", 0),
                   "solver_queries_seen": seen["n"],
                   "geometry_steps_rating_checked": geo["checked"],
                   "geometry_insertions_checked": geo.get("ins_checked", 0),
                   "replacement_point_checked": last_rm["checked"],
                   "replacement_after_soc_checked": last_rm["soc"]})
    nt = None
    if info.get("queries"):
        nt = "real|" + gen.spec_signature(spec)
    return e2e.record(case, e2e.attach(viols, spec, rec), nt=nt,
                      tags=["fam:real"], counts=counts,
                      gray=info.get("gray", 0),
                      maxes={"error_over_bound": info.get("worst", 0.0)})


def run_case(case):
    if case["fam"] == "driven":
        return run_driven(case)
    return run_real(case)
