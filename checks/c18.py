"""C18 - trust-region radius, resolution, penalty and centre stay coherent."""
import math

import numpy as np

from vlib import e2e, gen, mrun, ctx
from vlib.oracles import V

ID = "C18"
LEVEL = "exploration"
RULE = ("invariants asserted at the quiescent points of every real run "
        "(entry of get_trust_region_step / get_geometry_step, after "
        "update_radius / enhance_resolution / increase_penalty / "
        "decrease_penalty / the radius setter, before update_interpolation, "
        "in _build_result): radius_final <= resolution <= radius, resolution "
        "non-increasing, number of reductions bounded by the three-regime "
        "logarithmic bound, penalty finite and >= 0, the centre has least "
        "merit (merit recomputed by the monitor from the recorded values and "
        "the reduced linear data, never through TrustRegion.merit) up to "
        "npt*tol, the replaced index is never the centre, status 0 only with "
        "resolution == radius_final.  Workload: random problems with "
        "radius_init/radius_final over 30 decades (equal, zero final radius) "
        "and random admissible radius-management constants; plus the update "
        "rules driven directly on a real TrustRegion over a grid of (radius, "
        "resolution, ratio in [-1e6,1e6], step norm in [0,10*radius]).  "
        "Non-trivial = run with >=3 resolution reductions and a penalty that "
        "changed / any direct-drive batch; distinct = (decades of rho0/rhof, "
        "constants bucket, problem class)")
RULE += ("  Also: radii at the far ends of the floating-point range (1e-300..1e-100, 1e100..1e290) in the direct drive.")
RULE += (' The final radius the framework works with is the one the user stated (capped at the adjusted initial radius).')
ASSUMPTIONS = [
    "merit = f + penalty * ||(linear violations, max(c_ub,0), |c_eq|)||_2 "
    "recomputed from copies; slack npt*10*eps*max(n,npt)*max(|m|,1) (the "
    "solver's own tie tolerance chained over one scan)",
    "the reduction bound is only asserted for radius_final > 0",
]
REQUIRED = {"quiescent_checks": 5000, "centre_checks": 2000,
            "rule_calls": 20000, "replace_checks": 1000}
MIN_NONTRIVIAL = {"quick": 30, "thorough": 200}
PLAN = [("runs", 700, 10000), ("radii", 500, 7000), ("rules", 60, 900),
        ("repotests", 1, 1)]
EPS = np.finfo(float).eps


def cases(tier, seed):
    return e2e.case_list(PLAN, tier, seed)


def rand_constants(rng):
    c = {}
    if rng.random() < 0.5:
        c["decrease_radius_factor"] = float(rng.uniform(0.05, 0.95))
    if rng.random() < 0.4:
        c["increase_radius_factor"] = float(rng.uniform(1.05, 4.0))
        if rng.random() < 0.5:
            c["decrease_radius_threshold"] = float(
                rng.uniform(1.01, c["increase_radius_factor"] * 0.999))
    if rng.random() < 0.4:
        c["increase_radius_threshold"] = float(rng.uniform(1.05, 5.0))
    if rng.random() < 0.5:
        c["decrease_resolution_factor"] = float(10 ** rng.uniform(-3, -0.02))
    if rng.random() < 0.4:
        c["large_resolution_threshold"] = float(10 ** rng.uniform(0.01, 4))
        if rng.random() < 0.5:
            c["moderate_resolution_threshold"] = float(
                1.0 + (c["large_resolution_threshold"] - 1.0) * rng.random()
                + 1e-9)
    if rng.random() < 0.3:
        c["low_ratio"] = float(rng.uniform(0.01, 0.5))
        c["high_ratio"] = float(rng.uniform(c["low_ratio"], 0.99))
    if rng.random() < 0.3:
        c["short_step_threshold"] = float(rng.uniform(0.05, 0.95))
    if rng.random() < 0.3:
        c["penalty_increase_threshold"] = float(rng.uniform(1.0, 3.0))
        c["penalty_increase_factor"] = float(
            rng.uniform(max(1.01, c["penalty_increase_threshold"]), 6.0))
    return c


class Monitor:
    """Listens to the taps of one run; copies what it needs; never writes."""

    def __init__(self):
        self.viols = []
        self.n_q = 0
        self.n_centre = 0
        self.n_replace = 0
        self.res_hist = []
        self.reductions = 0
        self.pen_hist = []
        self.rf = None
        self.worst_merit_gap = 0.0

    def bad(self, clause, msg, **w):
        if len(self.viols) < 5:
            self.viols.append(V(clause, msg, **w))

    # -- helpers
    def merit_all(self, tr):
        models = tr.models
        pb = tr._pb
        itp = models.interpolation
        pts = itp.x_base[:, None] + itp.xpt          # copies (new arrays)
        pen = float(tr.penalty)
        a_ub, b_ub = pb.linear.a_ub, pb.linear.b_ub
        a_eq, b_eq = pb.linear.a_eq, pb.linear.b_eq
        m = np.empty(models.npt)
        r = np.empty(models.npt)
        dm = np.zeros(models.npt)      # rounding slack of each merit value
        dr = np.zeros(models.npt)      # rounding slack of each violation
        for k in range(models.npt):
            x = pts[:, k]
            parts = [np.maximum(a_ub @ x - b_ub, 0.0), np.abs(a_eq @ x - b_eq),
                     np.maximum(models.cub_val[k, :], 0.0),
                     np.abs(models.ceq_val[k, :])]
            v = np.concatenate(parts)
            r[k] = float(np.max(v, initial=0.0))
            m[k] = float(models.fun_val[k])
            if pen > 0.0 and np.count_nonzero(v):
                m[k] += pen * float(np.linalg.norm(v))
            mag_lin = np.concatenate([
                np.abs(a_ub) @ np.abs(x) + np.abs(b_ub),
                np.abs(a_eq) @ np.abs(x) + np.abs(b_eq), np.zeros(1)])
            dr[k] = 8.0 * EPS * float(np.max(mag_lin))
            if pen > 0.0:
                # the linear residuals are recomputed here with a different
                # summation order than the solver's: eps*(|A||x|+|b|) each
                mag = np.concatenate([np.abs(a_ub) @ np.abs(x) + np.abs(b_ub),
                                      np.abs(a_eq) @ np.abs(x) + np.abs(b_eq),
                                      np.zeros(1)])
                dm[k] = pen * 8.0 * EPS * float(np.linalg.norm(mag)) \
                    + 4.0 * EPS * abs(m[k])
        self._dm = dm
        self._dr = dr
        return m, r

    def quiescent(self, tr, where):
        self.n_q += 1
        rad, res, pen = tr.radius, tr.resolution, tr.penalty
        if not (res <= rad):
            self.bad("resolution_le_radius",
                     f"{where}: resolution {res!r} > radius {rad!r}",
                     mechanism=where)
        if self.rf is not None and not (self.rf <= res):
            self.bad("radius_final_le_resolution",
                     f"{where}: resolution {res!r} < radius_final "
                     f"{self.rf!r}", mechanism="below_final:" + where)
        if self.res_hist and res > self.res_hist[-1]:
            self.bad("resolution_increased",
                     f"{where}: resolution went from {self.res_hist[-1]!r} "
                     f"to {res!r}")
        if not self.res_hist or res != self.res_hist[-1]:
            self.res_hist.append(res)
        if not (math.isfinite(pen) and pen >= 0.0):
            self.bad("penalty", f"{where}: penalty = {pen!r}",
                     mechanism="penalty:" + where)
        if not self.pen_hist or pen != self.pen_hist[-1]:
            self.pen_hist.append(pen)

    def centre(self, tr, where):
        self.n_centre += 1
        m, r = self.merit_all(tr)
        if not np.all(np.isfinite(m)):
            return
        b = tr.best_index
        npt = tr.models.npt
        tol = 10.0 * EPS * max(tr.models.n, npt) * max(abs(m[b]), 1.0)
        k = int(np.argmin(m))
        gap = float(m[b] - m[k])
        slack = npt * tol + float(self._dm[b] + self._dm[k])
        self.worst_merit_gap = max(self.worst_merit_gap, gap / slack)
        # tie rule, asserted only for EXACT ties (all merits within the
        # solver's tolerance of the centre's are bitwise equal to it): a
        # single scan of the correct rule then ends on the least violation
        pen = float(tr.penalty)
        near = np.flatnonzero(np.abs(m - m[b]) < tol)
        if near.size > 1 and np.all(m[near] == m[b]) and pen == 0.0:
            for j in near:
                if r[j] < r[b] - (self._dr[j] + self._dr[b]) - 1e-300:
                    self.bad("tie_not_to_smaller_violation",
                             f"{where}: points {b} (centre) and {int(j)} tie "
                             f"exactly on merit {m[b]!r} but the centre has "
                             f"the larger violation ({r[b]!r} > {r[j]!r})",
                             mechanism="tie:" + where)
                    break
        if gap > slack:
            self.bad("centre_not_least_merit",
                     f"{where}: the centre (index {b}) has merit {m[b]!r} but "
                     f"interpolation point {k} has {m[k]!r} (penalty "
                     f"{tr.penalty!r})", mechanism="centre:" + where)

    # -- hooks
    def on_tr_init(self, run, tr, options):
        # a new TrustRegion = a new run (several per context in the
        # repository's tests): histories restart
        self.res_hist = []
        self.pen_hist = []
        self.rf = float(options["radius_final"])
        # the final radius the framework works with is the one the USER
        # stated (capped at the initial radius after its documented
        # adjustment to the bounds), not something derived silently
        stated = getattr(self, "stated_rf", None)
        if stated is not None and np.isfinite(stated):
            want = min(float(stated), float(options["radius_init"]))
            if self.rf != want:
                self.bad("radius_final_not_the_stated_one",
                         f"radius_final stated as {stated!r} but the "
                         f"framework works with {self.rf!r} (radius_init "
                         f"{float(options['radius_init'])!r})",
                         mechanism="radius_final_changed")
        self.quiescent(tr, "init")
        self.centre(tr, "init")

    def on_iter(self, run, tr, args):
        self.quiescent(tr, "iteration_start")
        self.centre(tr, "iteration_start")

    def on_geo(self, run, tr, args):
        self.quiescent(tr, "geometry_start")
        k_new = args[0]
        self.n_replace += 1
        if k_new == tr.best_index:
            self.bad("centre_replaced",
                     f"geometry step asked to replace index {k_new}, which is "
                     f"the centre", mechanism="geometry_replaces_centre")

    def on_mut(self, run, tr, what, args, out):
        if what in ("update_radius", "enhance_resolution", "radius.setter",
                    "increase_penalty", "decrease_penalty"):
            if what == "enhance_resolution":
                self.reductions += 1
            self.quiescent(tr, "after_" + what)

    def on_update(self, run, models, args):
        tr = run.tr
        if tr is None or tr.models is not models:
            return
        self.n_replace += 1
        if args[0] == tr.best_index:
            self.bad("centre_replaced",
                     f"update_interpolation replaces index {args[0]}, which "
                     f"is the centre (best_index)",
                     mechanism="update_replaces_centre")

    def on_final(self, run, pb, tr, final):
        if tr is None or not hasattr(tr, "_resolution"):
            return
        if getattr(final["status"], "value", None) == 0:
            rf = float(final["options"]["radius_final"])
            if tr.resolution != rf:
                self.bad("status0_resolution",
                         f"status 0 issued with resolution {tr.resolution!r} "
                         f"!= radius_final {rf!r}",
                         mechanism="status0_resolution")

    def attach(self, r, rec):
        try:
            v = ((rec.spec or {}).get("options") or {}).get("radius_final")
            self.stated_rf = None if v is None else float(v)
        except Exception:  # noqa: BLE001
            self.stated_rf = None
        r.on("tr.init.post", self.on_tr_init)
        r.on("step.tr.pre", self.on_iter)
        r.on("step.geo.pre", self.on_geo)
        r.on("tr.mut", self.on_mut)
        r.on("models.update.pre", self.on_update)
        r.on("final", self.on_final)


def reduction_bound(rho0, rhof, c):
    delta = c["decrease_resolution_factor"]
    big = c["large_resolution_threshold"]
    mod = c["moderate_resolution_threshold"]
    n1 = max(0.0, math.log(max(rho0 / (big * rhof), 1.0)) / math.log(1 / delta))
    n2 = 0.0
    if big > mod > 1.0:
        n2 = max(0.0, math.log2(math.log(big) / math.log(mod)))
    return math.ceil(n1) + math.ceil(n2) + 3


def run_real(case):
    rng = e2e.rng_of(ID, case)
    fam = case["fam"]
    spec = gen.general(rng, maxfev=(60, 250), forms=("nlc",),
                       opt_allow=("scale", "nb_points"),
                       with_faults=bool(rng.random() < 0.1))
    o = spec["options"]
    if fam == "radii":
        r0 = float(10.0 ** rng.uniform(-15, 15))
        mode = str(rng.choice(["ratio", "equal", "zero", "tiny"]))
        o["radius_init"] = r0
        if mode == "ratio":
            o["radius_final"] = r0 * float(10.0 ** rng.uniform(-15, 0))
        elif mode == "equal":
            o["radius_final"] = r0
        elif mode == "zero":
            o["radius_final"] = 0.0
        else:
            o["radius_final"] = r0 * 1e-30
        spec["radius_mode"] = mode
    else:
        if rng.random() < 0.5:
            o["radius_init"] = float(10.0 ** rng.uniform(-2, 1))
            o["radius_final"] = o["radius_init"] * float(
                10.0 ** rng.uniform(-8, 0))
    spec["constants"] = rand_constants(rng) if rng.random() < 0.6 else {}
    mon = Monitor()
    rec = mrun.run(spec, setup=mon.attach)
    viols = list(mon.viols)
    counts = e2e.base_counts(rec)
    if case["idx"] % 10 == 0:
        viols += e2e.audit(spec, rec, counts)
    counts.update({"quiescent_checks": mon.n_q, "centre_checks": mon.n_centre,
                   "replace_checks": mon.n_replace,
                   "resolution_reductions": mon.reductions})
    cons = rec.run.settings.get("tr_constants")
    opts = rec.run.settings.get("tr_options_post")
    if cons and opts and mon.rf and mon.rf > 0 and mon.res_hist:
        bound = reduction_bound(mon.res_hist[0], mon.rf, cons)
        if mon.reductions > bound:
            viols.append(V("too_many_reductions",
                           f"{mon.reductions} resolution reductions, bound "
                           f"{bound} for rho0={mon.res_hist[0]!r}, "
                           f"rhof={mon.rf!r}", mechanism="reductions"))
    nt = None
    if mon.reductions >= 3 and len(mon.pen_hist) > 1:
        dec = 0
        if mon.rf and mon.rf > 0 and mon.res_hist:
            dec = int(round(math.log10(max(mon.res_hist[0] / mon.rf, 1.0))))
        nt = "|".join([f"dec{dec}", "c" + "".join(sorted(
            k[0] + k.split("_")[-1][0] for k in spec["constants"])),
            spec.get("con_kind", "?"), str(spec.get("radius_mode", "-"))])
    sample = None
    if case["idx"] < 2:
        sample = {"spec": e2e.spec_brief(spec),
                  "constants": spec["constants"], "outcome": e2e.brief(rec),
                  "resolution_history": mon.res_hist[:12],
                  "penalty_history": mon.pen_hist[:8],
                  "quiescent_checks": mon.n_q}
    return e2e.record(case, e2e.attach(viols, spec, rec), nt=nt,
                      tags=["fam:" + fam,
                            "mode:" + str(spec.get("radius_mode", "-"))],
                      counts=counts, sample=sample,
                      maxes={"merit_gap_over_slack": mon.worst_merit_gap})


def run_rules(case):
    """Drive update_radius / enhance_resolution / the radius setter directly
    on a real TrustRegion instance."""
    rng = e2e.rng_of(ID, case)
    n = int(rng.integers(1, 4))
    consts = rand_constants(rng)
    spec = {"n": n, "obj": {"kind": "quad", "Q": np.eye(n).tolist(),
                            "c": [0.3] * n}, "x0": [0.0] * n,
            "options": {"maxfev": 2 * n + 3}, "constants": consts}
    rec = mrun.run(spec)
    tr = rec.run.tr
    viols = []
    calls = 0
    if tr is None or not hasattr(tr, "_radius"):
        return e2e.record(case, [], tags=["fam:rules", "no_tr"], skipped=True)
    cons = dict(tr._constants)
    with ctx.suspended():
        for _ in range(400):
            rf = float(10.0 ** rng.uniform(-12, 2)) if rng.random() < 0.9 \
                else 0.0
            u = rng.random()
            if u < 0.06:
                # radii at the far ends of the floating-point range
                rf = float(10.0 ** rng.uniform(-300, -100))
            elif u < 0.1:
                rf = float(10.0 ** rng.uniform(100, 290))
            res = rf * float(10.0 ** rng.uniform(0, 8)) if rf > 0 else \
                float(10.0 ** rng.uniform(-12, 2))
            if rng.random() < 0.15:
                res = rf if rf > 0 else res
            rad = res * float(rng.choice([1.0, 1.0 + 1e-12,
                                          10.0 ** rng.uniform(0, 3)]))
            options = {"radius_final": rf}
            what = str(rng.choice(["update_radius", "enhance", "setter"]))
            tr._resolution = res
            tr._radius = rad
            calls += 1
            if what == "update_radius":
                ratio = float(rng.choice([-1e6, -1.0, 0.0, 0.05, 0.1, 0.5,
                                          0.7, 0.9, 1.0, 10.0, 1e6,
                                          rng.normal()]))
                sn = rad * float(rng.choice([0.0, 1e-3, 0.5, 1.0, 2.0, 10.0,
                                             rng.random() * 10]))
                step = np.zeros(n)
                step[0] = sn
                tr.update_radius(step, ratio)
                if not (tr.radius >= tr.resolution):
                    viols.append(V("rule_update_radius",
                                   f"update_radius(|s|={sn!r}, ratio="
                                   f"{ratio!r}) from (radius={rad!r}, "
                                   f"resolution={res!r}) gives radius "
                                   f"{tr.radius!r} < resolution",
                                   mechanism="rule:update_radius",
                                   constants=cons))
                if tr.resolution != res:
                    viols.append(V("rule_update_radius",
                                   "update_radius changed the resolution"))
            elif what == "enhance":
                if res <= rf:
                    continue
                tr.enhance_resolution(options)
                new = tr.resolution
                if not (rf <= new <= res):
                    viols.append(V("rule_enhance_resolution",
                                   f"enhance_resolution from resolution "
                                   f"{res!r} (radius_final {rf!r}) gives "
                                   f"{new!r}, outside [radius_final, old]",
                                   mechanism="rule:enhance_below_final"
                                   if new < rf else "rule:enhance",
                                   constants=cons))
                if rf > 0 and not new < res:
                    viols.append(V("rule_enhance_resolution",
                                   f"enhance_resolution did not reduce the "
                                   f"resolution ({res!r} -> {new!r})",
                                   mechanism="rule:enhance_no_progress"))
                if not (tr.radius >= new):
                    viols.append(V("rule_enhance_resolution",
                                   f"radius {tr.radius!r} < new resolution "
                                   f"{new!r}", mechanism="rule:enhance"))
            else:
                val = res * float(rng.choice([0.0, 0.1, 0.999, 1.0, 1.2, 1.4,
                                              1.5, 3.0, 100.0]))
                tr.radius = val
                if not (tr.radius >= tr.resolution):
                    viols.append(V("rule_radius_setter",
                                   f"radius setter({val!r}) with resolution "
                                   f"{res!r} leaves radius {tr.radius!r}",
                                   mechanism="rule:setter", constants=cons))
            if len(viols) >= 3:
                break
    nt = "rules|" + "".join(sorted(k[0] + k.split("_")[-1][0]
                                   for k in consts)) + f"|n{n}"
    sample = {"constants": cons, "rule_calls": calls} if case["idx"] < 2 \
        else None
    return e2e.record(case, viols[:3], nt=nt, tags=["fam:rules"],
                      counts={"rule_calls": calls}, sample=sample)


def run_case(case):
    if case["fam"] == "rules":
        return run_rules(case)
    if case["fam"] == "repotests":
        from vlib import repotests
        viols, counts = repotests.run(ID)
        return e2e.record(case, viols, tags=["fam:repotests"], counts=counts,
                          nt="repotests")
    return run_real(case)
