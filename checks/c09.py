"""C09 - stopping requests take effect at the very evaluation that triggers
them (replay-based trigger placement: dry run, pick evaluation k of a chosen
step kind, rerun with the request placed there)."""
import math

import numpy as np

from vlib import e2e, gen, mrun, oracles

ID = "C09"
LEVEL = "exploration"
RULE = ("dry run of a deterministic problem records the evaluation sequence "
        "with the step kind of each evaluation; an index k of a chosen kind "
        "(first point, initial sampling, trust-region, second-order "
        "correction, geometry) is picked and the problem is rerun with target "
        "= f_k at a new feasible record / a callback raising at call k / "
        "(feasibility problems) the first feasible point; also simultaneous "
        "requests.  Non-trivial = a rerun in which a request was satisfied; "
        "distinct = (request kinds, step kind of k, simultaneous, constraint "
        "kind)")
RULE += ("  Also: trigger kind 'trust-region point followed by a second-order correction'; requests of the form (target, feasibility_tol) = (f_k, v_k) so that infeasible points trigger; small filters; callbacks that return truthy values but never raise; targets at / beyond the extreme barrier with NaN / inf / huge objective values (-inf <= target satisfies, NaN does not).")
RULE += (" Requests are judged with the settings as the user STATED them (not the solver's completed options); family tinyviol: a constraint violated by exactly 5e-16 (injected) with tolerance 0.")
RULE += (' NaN objective values with ordinary targets (-50, 0.5, 50, 1e6).')
RULE += (" Family ulptarget: the target is a record that improves on the previous one by at most 64 ulps.")
RULE += (" Family userstop: a user function raising StopIteration is no stopping request; target placements on problems whose constraint is undefined at early evaluations.")
RULE += (" Family x0_near_bound: x0 within the initial radius of a bound and best so far; the request is placed on the evaluation that follows the initial sampling.")
ASSUMPTIONS = [
    "the solver is deterministic (C11), so the rerun reproduces evaluations "
    "1..k bitwise; this is itself verified (prefix comparison) and a mismatch "
    "makes the case inconclusive-skipped, not a violation",
    "knife-edge evaluations (violation within rounding of the tolerance) are "
    "skipped",
]
REQUIRED = {"eval.post": 1000, "triggered_reruns": 100, "kind:tr": 10,
            "kind:init": 10, "kind:geo": 5, "kind:soc": 5,
            "kind:tr_before_soc": 3}
MIN_NONTRIVIAL = {"quick": 15, "thorough": 60}
PLAN = [("target", 450, 7000), ("callback", 350, 5000), ("feas", 250, 4000),
        ("multi", 150, 2500), ("soc", 400, 5000), ("bartarget", 150, 2000),
        ("tinyviol", 60, 600), ("ulptarget", 60, 800),
        ("userstop", 60, 600), ("x0_near_bound", 80, 800)]

EPS = np.finfo(float).eps


def cases(tier, seed):
    return e2e.case_list(PLAN, tier, seed)


def base_spec(rng, fam):
    con = str(rng.choice(["none", "lin", "nl", "both"]))
    if fam == "feas":
        con = str(rng.choice(["lin", "nl", "both"]))
    spec = gen.general(rng, con=con, maxfev=(40, 120), with_callback=False,
                       opt_allow=("scale", "nb_points", "radius"),
                       obj_kinds=("quad", "abs", "rosen", "sinq", "lin"),
                       fun_none=1.0 if fam == "feas" else 0.0,
                       limit_kinds=("upper", "lower", "two") if fam == "feas"
                       else gen.LIMIT_KINDS)
    return spec


def run_case(case, judge="c09"):
    """judge='c07': same placed runs, judged by the status oracle of C07
    (used by that check's 'placed' family)."""
    rng = e2e.rng_of(ID, case)
    fam = case["fam"]
    force_kind = None
    if fam == "soc":
        # problems with a curved feasible set hugging a face of the box (the
        # C01 'soc' generator): second-order-correction evaluations abound;
        # the request is placed on one of them
        from checks import c01
        spec = c01.make_spec({"id": case["id"], "fam": "soc",
                              "idx": case["idx"], "seed": case["seed"]})
        spec["options"].pop("scale", None)
        if rng.random() < 0.5:
            force_kind = "soc"
            fam = str(rng.choice(["target", "callback", "multi"],
                                 p=[0.2, 0.65, 0.15]))
        else:
            # the trial point of a trust-region step that is FOLLOWED by a
            # second-order correction; such a point rarely is a feasible
            # record, so the request is (target, feasibility_tol) =
            # (f_k, v_k) whenever no earlier point satisfies it
            force_kind = "tr_before_soc"
            fam = str(rng.choice(["target", "callback", "multi"],
                                 p=[0.7, 0.1, 0.2]))
    elif fam == "tinyviol":
        # feasibility_tol = 0 and a constraint that is violated by exactly
        # 5e-16 at every evaluation (the value is injected, so the violation
        # carries no rounding): no evaluation satisfies a target / feasibility
        # request, whatever the objective
        spec = base_spec(rng, "target")
        n = spec["n"]
        x0 = np.asarray(spec["x0"])
        spec["nl"] = [{"comps": [gen.nl_component(rng, n)], "form": "nlc",
                       "lb": [-math.inf], "ub": [0.0]}]
        spec.pop("lin", None)
        spec.pop("bounds", None)
        spec["con_kind"] = "nl"
        spec["faults"] = [{"target": "con", "j": 0, "comp": 0, "val": "tiny",
                           "when": {"all": True}}]
        spec["options"]["feasibility_tol"] = 0.0
        spec["options"]["maxfev"] = int(rng.integers(8, 30))
        spec["options"].pop("scale", None)
        if rng.random() < 0.7 and spec["obj"]["kind"] != "none":
            spec["options"]["target"] = 1e25
        else:
            spec["obj"] = {"kind": "none"}
        spec.pop("rtype", None)
        rec = mrun.run(spec)
        counts = e2e.base_counts(rec)
        viols, info = oracles.o_c09(rec)
        counts["tinyviol_runs"] = 1
        return e2e.record(case, e2e.attach(viols, spec, rec),
                          nt="tinyviol|%s" % (rec.res.status if rec.res
                                              is not None else "exc"),
                          tags=["fam:tinyviol"], counts=counts,
                          skipped=bool(info.get("ambiguous")))
    elif fam == "bartarget":
        # targets at / beyond the extreme barrier with objective values that
        # are NaN, infinite or huge at some evaluations
        spec = base_spec(rng, "target")
        if spec["obj"]["kind"] == "none":
            spec["obj"] = gen.objective(rng, spec["n"], ("quad", "abs"))
        k = int(rng.integers(1, 4))
        idx = sorted(set(int(v) for v in rng.integers(0, 12, k)))
        if rng.random() < 0.5:
            idx = [0] + idx
        spec["faults"] = [{"target": "obj", "when": {"idx": idx},
                           "val": str(rng.choice(["nan", "inf", "-inf",
                                                  "huge", "-huge"]))}]
        spec["options"]["target"] = float(rng.choice(
            [math.inf, 1e35, 1e250, 2.0 ** 100, -2.0 ** 100, -1e35,
             -1e250, -50.0, 0.5, 50.0, 1e6]))
        spec["options"]["maxfev"] = int(rng.integers(15, 40))
        rec = mrun.run(spec)
        counts = e2e.base_counts(rec)
        viols, info = oracles.o_c09(rec)
        v7, _ = oracles.o_c07(rec)
        viols += [v for v in v7 if v["clause"] == "status1_target"]
        nt = None
        tags = ["fam:bartarget"]
        if info.get("trigger"):
            counts["triggered_reruns"] = 1
            nt = "bartarget|%s|%s|%s" % (spec["options"]["target"],
                                         spec["faults"][0]["val"],
                                         info.get("trigger_kind"))
        return e2e.record(case, e2e.attach(viols, spec, rec), nt=nt,
                          tags=tags, counts=counts,
                          skipped=bool(info.get("ambiguous")))
    elif fam == "ulptarget":
        # a run converging to a minimum value that is not 0: late records
        # improve on the previous one by a few ulps only; the target is such
        # a record (it satisfies the request however small the improvement,
        # and it is the point returned)
        n = int(rng.integers(1, 3))
        qm = rng.uniform(-1, 1, (n, n))
        qm = qm @ qm.T + 0.2 * np.eye(n)
        spec = {"n": n, "obj": {"kind": "quad", "Q": qm.tolist(),
                                "c": rng.uniform(-1, 1, n).tolist(),
                                "f0": float(rng.choice([1.0, -3.0, 40.0]))},
                "x0": rng.uniform(-2, 2, n).tolist(), "con_kind": "none",
                "options": {"maxfev": 400, "radius_final": float(
                    10.0 ** rng.uniform(-11, -8))}}
        force_kind = "ulp"
        fam = "target"
    elif fam == "x0_near_bound":
        # x0 strictly inside the box but within the initial radius of some
        # bounds (the initial set is built around a moved base point) and the
        # objective is smallest at x0: whatever evaluation comes right after
        # the initial sampling, a request placed on it takes effect there
        n = int(rng.integers(1, 4))
        x0 = rng.uniform(-1, 1, n)
        rad = float(rng.choice([0.5, 1.0, 2.0]))
        lb = x0 - rad * rng.uniform(1.5, 4.0, n)
        ub = x0 + rad * rng.uniform(1.5, 4.0, n)
        for i in rng.choice(n, size=int(rng.integers(1, n + 1)),
                            replace=False):
            if rng.random() < 0.5:
                lb[i] = x0[i] - rad * float(rng.uniform(0.05, 0.9))
            else:
                ub[i] = x0[i] + rad * float(rng.uniform(0.05, 0.9))
        qm = rng.uniform(-1, 1, (n, n))
        qm = qm @ qm.T + 0.3 * np.eye(n)
        spec = {"n": n, "obj": {"kind": "quad", "Q": qm.tolist(),
                                "c": x0.tolist(), "f0": float(rng.normal())},
                "x0": x0.tolist(), "con_kind": "none",
                "bounds": {"lb": lb.tolist(), "ub": ub.tolist(),
                           "form": "Bounds", "patterns": ["near"] * n},
                "options": {"maxfev": 40, "radius_init": rad}}
        force_kind = "at_npt"
        fam = "target"
    elif fam == "userstop":
        # a USER FUNCTION (not the callback) raises StopIteration at some
        # evaluation - an exhausted iterator in the user's code: no stopping
        # request was made, so the run must not report one (status 3); the
        # exception is the user's and propagates
        spec = base_spec(rng, "target")
        if spec["obj"]["kind"] == "none":
            spec["obj"] = gen.objective(rng, spec["n"], ("quad", "abs"))
        tgt = "con" if spec.get("nl") and rng.random() < 0.5 else "obj"
        f = {"target": tgt, "val": "raise_stop",
             "when": {"idx": [int(rng.integers(0, 30))]}}
        if tgt == "con":
            f["j"] = 0
            f["comp"] = None
        spec["faults"] = [f]
        if rng.random() < 0.4:
            spec["callback"] = {"conv": str(rng.choice(["kw", "pos"]))}
        rec = mrun.run(spec)
        counts = e2e.base_counts(rec)
        counts["userstop_runs"] = 1
        viols = []
        if rec.res is not None and rec.res.status == 3:
            viols.append(oracles.V(
                "status_without_event",
                f"status 3 (callback requested a stop) after {rec.res.nfev} "
                f"evaluations, but no callback ever raised StopIteration: "
                f"the {tgt} function did, at evaluation "
                f"{f['when']['idx'][0] + 1}", mechanism="user_stopiteration"))
        return e2e.record(case, e2e.attach(viols, spec, rec),
                          nt="userstop|%s|%s" % (tgt, "exc" if rec.exc
                                                 is not None else "res"),
                          tags=["fam:userstop"], counts=counts)
    else:
        spec = base_spec(rng, fam)
        if fam == "target" and spec.get("nl") and rng.random() < 0.3:
            # undefined constraint values at some early evaluations: such a
            # point never satisfies a request and is not what a later stop
            # returns
            spec["faults"] = [{"target": "con", "j": 0, "comp": None,
                               "val": "nan", "when": {"idx": sorted(set(
                                   int(v) for v in rng.integers(
                                       0, 10, int(rng.integers(1, 4)))))}}]
            spec["trigger_note"] = "con_nan_early"
    dry = mrun.run(spec)
    counts = e2e.base_counts(dry)
    tags = ["fam:" + case["fam"]]
    if dry.res is None:
        return e2e.record(case, [], tags=tags + ["dry:exception"],
                          counts=counts, skipped=True)
    table = oracles.eval_table(dry)
    tol = oracles.feas_tol(dry)
    if fam == "feas":
        # the request is built in: judge the dry run itself
        viols, info = oracles.o_c09(dry, table)
        rec = dry
        chosen_kind = info.get("trigger_kind")
    else:
        # candidate trigger positions
        want_kind = force_kind or str(rng.choice(["init", "tr", "soc", "geo",
                                                  "first"]))
        cands = []
        ulp_gain = set()
        best = math.inf
        use_tol = fam != "callback" and (force_kind == "tr_before_soc"
                                         or rng.random() < 0.25)
        seen = []
        for j, r in enumerate(table):
            if not r["ok"] or r["v"] is None or math.isnan(r["v"]):
                continue
            if use_tol:
                # (f_k, v_k) not dominated by an earlier evaluation, with a
                # clear margin in the violation
                ok = math.isfinite(r["f"]) and math.isfinite(r["v"]) and \
                    r["v"] > 1e6 * (r["slack"] + 1e-300) and \
                    not any(f <= r["f"] and v <= r["v"] * 1.01
                            for f, v in seen)
                if ok:
                    cands.append(r)
                if math.isfinite(r["f"]):
                    seen.append((r["f"], r["v"]))
                continue
            feasible = r["v"] <= tol and abs(r["v"] - tol) > 1e3 * r["slack"] \
                + 1e-300
            if fam == "callback" or (feasible and math.isfinite(r["f"])
                                     and r["f"] < best):
                cands.append(r)
                if math.isfinite(best) and best - r["f"] <= 64 * EPS * abs(
                        r["f"]):
                    ulp_gain.add(r["i"])
            if feasible and math.isfinite(r["f"]):
                best = min(best, r["f"])
        if want_kind == "first":
            pick = [r for r in cands if r["i"] == 0]
        elif want_kind == "at_npt":
            npt_ = 2 * spec["n"] + 1
            pick = [r for r in cands if r["i"] == npt_]
            if pick:
                counts["placed_right_after_sampling"] = 1
        elif want_kind == "ulp":
            pick = [r for r in cands if r["i"] in ulp_gain]
            if not pick:
                return e2e.record(case, [], tags=tags + ["dry:no_candidate"],
                                  counts=counts, skipped=True)
            counts["ulp_gain_targets"] = 1
        elif want_kind == "tr_before_soc":
            pick = [r for r in cands if r["kind"] == "tr" and r["i"] > 0
                    and r["i"] + 1 < len(table)
                    and table[r["i"] + 1]["kind"] == "soc"]
            if not pick:
                return e2e.record(case, [], tags=tags + ["dry:no_candidate"],
                                  counts=counts, skipped=True)
        else:
            pick = [r for r in cands if r["kind"] == want_kind and r["i"] > 0]
        if not pick:
            pick = cands
        if not pick:
            return e2e.record(case, [], tags=tags + ["dry:no_candidate"],
                              counts=counts, skipped=True)
        r = pick[int(rng.integers(len(pick)))]
        k = r["i"] + 1
        spec2 = dict(spec)
        spec2["options"] = dict(spec["options"])
        if use_tol:
            spec2["options"]["feasibility_tol"] = r["v"] * 1.001
            tags.append("target+tol")
            if rng.random() < 0.5:
                # a small filter: the point that meets the request is the
                # least feasible of the retained points
                spec2["options"]["filter_size"] = int(rng.integers(1, 4))
                tags.append("small_filter")
        if fam == "target":
            spec2["options"]["target"] = r["f"]
            if rng.random() < 0.3:
                # a callback that never raises but RETURNS a value
                spec2["callback"] = {
                    "conv": str(rng.choice(["kw", "pos"])),
                    "returns": str(rng.choice(["True", "np_true", "one",
                                               "str", "list", "array",
                                               "array2", "echo"]))}
                tags.append("cb_returns")
        elif fam == "callback":
            spec2["callback"] = {"conv": str(rng.choice(["kw", "pos"])),
                                 "stop_at": k}
        else:  # multi: callback stop and target at the same evaluation
            spec2["options"]["target"] = r["f"] if math.isfinite(r["f"]) \
                else 0.0
            spec2["callback"] = {"conv": "pos", "stop_at": k}
        if rng.random() < 0.3:
            # the evaluation budget ends exactly at the triggering evaluation
            spec2["options"]["maxfev"] = k
            tags.append("maxfev_at_trigger")
        rec = mrun.run(spec2)
        for key, val in e2e.base_counts(rec).items():
            counts[key] = counts.get(key, 0) + val
        # determinism prefix check (evaluations 1..k identical)
        a = [e["x"].tobytes() for e in dry.run.evals[:k]]
        b = [e["x"].tobytes() for e in rec.run.evals[:k]]
        if a[:len(b)] != b[:len(a)]:
            return e2e.record(case, [], tags=tags + ["rerun:diverged"],
                              counts=counts, skipped=True)
        viols, info = oracles.o_c09(rec)
        if judge == "c07":
            viols = oracles.o_c07(rec)[0]
        else:
            viols += [v for v in oracles.o_c07(rec)[0]
                      if v["clause"] == "status1_target"]
        if rec.exc is not None:
            viols.append(oracles.V(
                "exception_at_trigger",
                f"request placed at evaluation {k} ({r['kind']} step): "
                f"minimize raised {type(rec.exc).__name__}: "
                f"{str(rec.exc)[:120]}", k=k, kind=r["kind"],
                mechanism="exc:" + type(rec.exc).__name__))
            info["trigger"] = info.get("trigger") or ["exception"]
            info["trigger_kind"] = r["kind"]
        elif len(b) < min(k, len(a)) and not info.get("ambiguous") \
                and not viols:
            viols.append(oracles.V(
                "stopped_before_trigger",
                f"request placed at evaluation {k} but the run ended after "
                f"{len(b)} evaluations with status "
                f"{rec.res.status if rec.res is not None else None}", k=k))
        spec = spec2
        chosen_kind = r["kind"]
        if force_kind == "tr_before_soc" and info.get("trigger") and \
                info.get("trigger_kind") == "tr" and \
                (info.get("k") or k) == k:
            counts["kind:tr_before_soc"] = 1
        if info.get("trigger") is None and not info.get("ambiguous") \
                and rec.res is not None:
            viols.append(oracles.V(
                "placed_trigger_not_seen",
                f"request placed at evaluation {k} ({chosen_kind}) was not "
                f"recognised by the oracle", k=k))
    nt = None
    if info.get("trigger"):
        counts["triggered_reruns"] = 1
        counts["kind:" + str(info.get("trigger_kind"))] = 1
        nt = "|".join([",".join(map(str, info["trigger"])),
                       str(info.get("trigger_kind")), fam,
                       spec.get("con_kind", "?")])
        tags.append("trigger_kind:" + str(info.get("trigger_kind")))
    if info.get("ambiguous"):
        tags.append("ambiguous")
    sample = None
    if case["idx"] < 2:
        sample = {"spec": e2e.spec_brief(spec), "outcome": e2e.brief(rec),
                  "trigger": info.get("trigger"),
                  "trigger_step_kind": info.get("trigger_kind")}
    return e2e.record(case, e2e.attach(viols, spec, rec), nt=nt, tags=tags,
                      counts=counts, sample=sample,
                      skipped=bool(info.get("ambiguous")))
