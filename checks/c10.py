"""C10 - equivalent statements of a problem are solved identically
(metamorphic paired runs, compared bitwise)."""
import copy
import math

import numpy as np

from vlib import e2e, gen, mrun, ctx, taps, problems, truth
from vlib.oracles import V, feq

ID = "C10"
LEVEL = "exploration"
RULE = ("paired runs in one process, constructed so that the floating-point "
        "operations are identical: Bounds <-> (n,2) array; dict <-> "
        "NonlinearConstraint ('ineq' <-> [0,inf), 'eq' <-> [0,0]); one "
        "two-sided LinearConstraint <-> (upper part, lower part); one "
        "two-sided NonlinearConstraint <-> (lower part, upper part); "
        "regrouping of adjacent linear rows (one-sided, two-sided, "
        "equalities); fixed variables <-> "
        "the reduced problem; scale=True <-> the explicit unit-box problem "
        "(for the last two the second run is given the solver's own "
        "transformed data captured at Problem.__init__ and the user "
        "functions composed with build_x).  Compared bitwise: the sequence "
        "of evaluated points, status, nfev, nit, x, fun, maxcv.  Second "
        "oracle: the transformed linear data are correct - at random solver "
        "points the sorted internal residual vectors equal the sorted "
        "user-space residuals at build_x(x) within rounding.  Non-trivial = "
        "the restatement changes the internal representation (a variable "
        "really fixed, a really two-sided limit, a non-unit scaling factor, "
        "a real regrouping); distinct = (restatement kind, constraint kinds, "
        "n, #fixed, scale)")
RULE += ("  Also: completed options / constants of the two statements compared (budgets left to their defaults); regrouping of linear rows of any kind with the internal-row-order model deciding which differences are the known finding; one vector-valued NonlinearConstraint <-> one object per component with undefined values on one component; limits exactly 0; unit scaling factors.")
RULE += (" Equalities in the NaN-limit restatements; disp=True with reachable resolution reductions; a first statement that raises after evaluations is compared, not skipped; the transformed statement maps points with the harness's own map.")
RULE += (' Regrouped rows with mixed magnitudes (a huge one-sided limit next to a narrow two-sided row).')
RULE += (" Regrouped rows whose last row has limits a few ulps apart (the equal-to-rounding decision must not depend on the number of rows).")
ASSUMPTIONS = [
    "numpy/scipy/LAPACK deterministic for identical inputs in one process",
    "a by-hand elimination/rescaling differs by BLAS-shape-dependent "
    "rounding, which the property cannot mean; therefore the second run "
    "uses the solver's own transformed arrays, whose correctness is checked "
    "separately within a rounding bound",
]
REQUIRED = {"pairs_compared": 300, "evaluations_compared": 5000,
            "residual_points": 500}
MIN_NONTRIVIAL = {"quick": 60, "thorough": 400}
PLAN = [("bounds_form", 100, 1500), ("dict_nlc", 120, 2000),
        ("lin_split", 120, 2000), ("nl_split", 120, 2000),
        ("regroup", 100, 1500), ("fixed", 200, 3000), ("scale", 200, 3000),
        ("fixed_scale", 120, 2000), ("nan_limits", 120, 2000),
        ("nl_regroup", 120, 2000)]
EPS = np.finfo(float).eps


def cases(tier, seed):
    return e2e.case_list(PLAN, tier, seed)


def trace(rec, internal=False):
    if internal:
        pts = [e["x"].tobytes() for e in rec.run.evals]
    else:
        pts = [p.tobytes() for p in rec.eval_points()]
    return pts


def compare(ra, rb, viols, kind, info, xmap=None, internal=False):
    """Bitwise comparison of two runs."""
    info["pairs"] = 1
    if (ra.exc is None) != (rb.exc is None):
        viols.append(V("outcome_differs",
                       f"{kind}: one statement raised "
                       f"{type(ra.exc or rb.exc).__name__}: "
                       f"{str(ra.exc or rb.exc)[:120]}, the other returned",
                       mechanism=kind))
        return
    if ra.exc is not None:
        if type(ra.exc) is not type(rb.exc):
            viols.append(V("outcome_differs", f"{kind}: different exceptions "
                           f"{type(ra.exc).__name__} / "
                           f"{type(rb.exc).__name__}", mechanism=kind))
        return
    ta, tb = trace(ra, internal), trace(rb, internal)
    info["evals"] = min(len(ta), len(tb))
    if ta != tb:
        k = next((i for i, (p, q) in enumerate(zip(ta, tb)) if p != q),
                 min(len(ta), len(tb)))
        viols.append(V("evaluation_sequence_differs",
                       f"{kind}: the two statements evaluate different "
                       f"points from evaluation {k + 1} on (lengths "
                       f"{len(ta)} / {len(tb)})", mechanism=kind, first=k))
        return
    fa = [float(e["v"]) for e in ra.obj_events()]
    fb = [float(e["v"]) for e in rb.obj_events()]
    if len(fa) != len(fb) or not all(feq(p, q) for p, q in zip(fa, fb)):
        viols.append(V("objective_values_differ",
                       f"{kind}: same points but different objective "
                       f"values", mechanism=kind))
        return
    a, b = ra.res, rb.res
    xb = np.asarray(b.x, dtype=float)
    if xmap is not None:
        xb = xmap(xb)
    bad = []
    if np.asarray(a.x, float).tobytes() != np.asarray(xb, float).tobytes():
        bad.append("x")
    if not feq(a.fun, b.fun):
        bad.append("fun")
    if not feq(a.maxcv, b.maxcv):
        bad.append(f"maxcv ({a.maxcv!r} vs {b.maxcv!r})")
    for k in ("status", "nfev", "nit", "success"):
        if a[k] != b[k]:
            bad.append(f"{k} ({a[k]} vs {b[k]})")
    if bad:
        viols.append(V("result_differs",
                       f"{kind}: identical evaluation sequences but "
                       f"different results: {', '.join(bad)}",
                       mechanism=kind if kind.endswith("row order changes")
                       else kind + ":" + bad[0].split(" ")[0]))


def settings_compare(ra, rb, viols, info):
    """The completed options / constants the solver works with (taps on
    _set_default_options, _set_default_constants) agree between the two
    statements, except for the ``scale`` flag the restatement changes."""
    for part in ("options", "constants"):
        a = ra.run.settings.get(part)
        b = rb.run.settings.get(part)
        if a is None or b is None:
            continue
        info["settings_compared"] = info.get("settings_compared", 0) + 1
        diff = []
        for k in sorted(set(a) | set(b), key=str):
            if str(k) == "scale" or str(getattr(k, "value", k)) == "scale":
                continue
            va, vb = a.get(k, "<missing>"), b.get(k, "<missing>")
            same = va == vb or (isinstance(va, float) and isinstance(vb, float)
                                and math.isnan(va) and math.isnan(vb))
            if not same:
                diff.append(f"{getattr(k, 'value', k)}: {va!r} vs {vb!r}")
        if diff:
            viols.append(V("completed_settings_differ",
                           f"the completed {part} of the two statements "
                           f"differ: {'; '.join(diff[:4])}",
                           mechanism="settings:" + diff[0].split(":")[0]))


def base_spec(rng, con, **kw):
    return gen.general(rng, xunit=False, con=con, maxfev=(30, 100), with_callback=False,
                       forms=("nlc",), **kw)


def transformed_run(spec, rec_a):
    """Second run on the solver's own reduced / scaled data."""
    from scipy.optimize import Bounds, LinearConstraint, NonlinearConstraint
    import cobyqa
    pb = rec_a.run.pb
    b2 = problems.build(spec)
    cons = []
    if pb.linear.a_ub.shape[0]:
        cons.append(LinearConstraint(pb.linear.a_ub.copy(), -np.inf,
                                     pb.linear.b_ub.copy()))
    if pb.linear.a_eq.shape[0]:
        cons.append(LinearConstraint(pb.linear.a_eq.copy(),
                                     pb.linear.b_eq.copy(),
                                     pb.linear.b_eq.copy()))
    # the map from the solver's variables to the user's is the DOCUMENTED one,
    # computed by the harness (never Problem.build_x, which is under test)
    scale_a = bool(rec_a.run.settings.get("options", {}).get("scale"))

    def to_user(x):
        y = truth.user_point(rec_a.built, scale_a, np.asarray(x, float))
        return pb.build_x(x) if y is None else y

    for j, nc in enumerate(b2.nl):
        spy = b2.con_spies[j]
        cons.append(NonlinearConstraint(
            (lambda spy: (lambda x: spy(to_user(x))))(spy),
            nc["lb"].copy(), nc["ub"].copy()))
    fun = None
    if b2.fun is not None:
        fun = (lambda x: b2.fun(to_user(x)))
    opts = dict(b2.options or {})
    # If run A really scaled, run B is given the unit box and also asked to
    # scale: its factor is exactly 1 and its shift exactly 0, so the values
    # are unchanged while the arrays go through the same matmul (identical
    # memory layout, hence identical BLAS summation order).
    opts["scale"] = bool(np.any(pb._scaling_factor != 1.0)
                         or np.any(pb._scaling_shift != 0.0))
    rec = mrun.Rec()
    rec.spec = spec
    rec.built = b2
    r = ctx.Run()
    rec.run = r
    import warnings
    with warnings.catch_warnings():
        warnings.simplefilter("ignore")
        with ctx.active(r):
            try:
                rec.res = cobyqa.minimize(
                    fun, pb.x0.copy(),
                    bounds=Bounds(pb.bounds.xl.copy(), pb.bounds.xu.copy()),
                    constraints=cons, options=opts, **b2.constants)
            except BaseException as exc:  # noqa: BLE001
                if isinstance(exc, KeyboardInterrupt) or \
                        type(exc).__name__ == "_CaseTimeout":
                    raise
                rec.exc = exc
    return rec


def residual_check(rec, rng, viols, info):
    """Transformed linear data vs user-space residuals at build_x(x)."""
    pb = rec.run.pb
    b = rec.built
    if pb is None or not b.lin or pb.n == 0 or not pb.bounds.is_feasible:
        return
    xl = np.where(np.isfinite(pb.bounds.xl), pb.bounds.xl,
                  np.where(np.isfinite(pb.bounds.xu), pb.bounds.xu - 3.0,
                           -3.0))
    xu = np.where(np.isfinite(pb.bounds.xu), pb.bounds.xu, xl + 3.0)
    for _ in range(4):
        x = xl + rng.random(pb.n) * (xu - xl)
        from vlib import oracles as _orc
        xf = _orc.user_of(rec, pb, x)
        ub_int = np.sort(pb.linear.a_ub @ x - pb.linear.b_ub)
        eq_int = np.sort(np.abs(pb.linear.a_eq @ x - pb.linear.b_eq))
        ub_usr, eq_usr, mags = [], [], []
        if any(np.any(np.isfinite(g) & (g > 0)
                      & (g <= truth.CUSHION * truth.eq_tol(lc["lb"],
                                                            lc["ub"])))
               for lc in b.lin
               for g in [np.abs(np.asarray(lc["ub"], float)
                                - np.asarray(lc["lb"], float))]):
            # limits equal to rounding but not exactly: either reading (one
            # equality / two inequalities) is accepted, rows not compared
            info["residual_zone_skipped"] = info.get(
                "residual_zone_skipped", 0) + 1
            return
        for lc in b.lin:
            a = np.where(np.isnan(lc["A"]), 0.0, lc["A"])
            v = a @ xf
            tol = truth.eq_tol(lc["lb"], lc["ub"])
            mg = np.abs(a) @ np.abs(xf)
            for i in range(a.shape[0]):
                lo, hi = lc["lb"][i], lc["ub"][i]
                if np.isfinite(lo) and np.isfinite(hi) and hi == lo:
                    eq_usr.append(abs(v[i] - 0.5 * (lo + hi)))
                    mags.append(mg[i] + abs(lo))
                    continue
                if np.isfinite(hi):
                    ub_usr.append(v[i] - hi)
                    mags.append(mg[i] + abs(hi))
                if np.isfinite(lo):
                    ub_usr.append(lo - v[i])
                    mags.append(mg[i] + abs(lo))
        info["residual_points"] = info.get("residual_points", 0) + 1
        if len(ub_usr) != ub_int.size or len(eq_usr) != eq_int.size:
            viols.append(V("transformed_row_count",
                           f"internal rows ({ub_int.size}, {eq_int.size}) vs "
                           f"user rows ({len(ub_usr)}, {len(eq_usr)})",
                           mechanism="rows"))
            return
        fin = np.concatenate([b.lb[np.isfinite(b.lb)], b.ub[np.isfinite(b.ub)],
                              [1.0]])
        amax = max(float(np.max(np.abs(np.where(np.isnan(lc["A"]), 0.0,
                                                lc["A"])))) for lc in b.lin)
        tol = 64 * EPS * (max(mags, default=0.0)
                          + amax * float(np.max(np.abs(fin))) * b.n) + max(
            float(np.max(truth.eq_tol(lc["lb"], lc["ub"]))) for lc in b.lin)
        for got, want, nm in ((ub_int, np.sort(ub_usr), "inequality"),
                              (eq_int, np.sort(eq_usr), "equality")):
            if got.size and float(np.max(np.abs(got - want))) > tol:
                viols.append(V(
                    "transformed_residuals",
                    f"{nm} residuals of the reduced/scaled linear system "
                    f"differ from the user's at build_x(x) by "
                    f"{float(np.max(np.abs(got - want))):.3g} (tol "
                    f"{tol:.3g})", mechanism="residual:" + nm))
                return


def run_case(case):
    rng = e2e.rng_of(ID, case)
    fam = case["fam"]
    viols = []
    info = {}
    nt = None
    tags = ["fam:" + fam]
    if fam == "bounds_form":
        spec = base_spec(rng, str(rng.choice(["none", "lin", "nl", "both"])),
                         bound_patterns=gen.BOUND_PATTERNS)
        s2 = copy.deepcopy(spec)
        spec["bounds"]["form"] = "Bounds"
        s2["bounds"]["form"] = "array"
        ra, rb = mrun.run(spec), mrun.run(s2)
        compare(ra, rb, viols, "Bounds vs (n,2) array", info)
        nt = "bounds_form|" + gen.spec_signature(spec)
    elif fam == "dict_nlc":
        spec = base_spec(rng, str(rng.choice(["nl", "both"])))
        n = spec["n"]
        x0 = np.asarray(spec["x0"])
        spec["nl"] = gen.nonlinear_constraints(
            rng, n, x0, count=int(rng.integers(1, 3)),
            forms=("dict_ineq", "dict_eq"))
        s2 = copy.deepcopy(spec)
        for c in s2["nl"]:
            m = len(c["comps"])
            for a in c.pop("cargs", []):
                c["comps"] = [{"kind": "shift", "base": cc, "add": a}
                              for cc in c["comps"]]
            c["lb"] = [0.0] * m
            c["ub"] = [0.0] * m if c["form"] == "dict_eq" else [math.inf] * m
            c["form"] = "nlc"
        ra, rb = mrun.run(spec), mrun.run(s2)
        compare(ra, rb, viols, "dict vs NonlinearConstraint", info)
        nt = "dict|" + ",".join(c["form"] for c in spec["nl"]) + \
            f"|n{n}|{spec['con_kind']}"
    elif fam in ("lin_split", "regroup"):
        spec = base_spec(rng, str(rng.choice(["lin", "both"])))
        n = spec["n"]
        x0 = np.asarray(spec["x0"])
        m = int(rng.integers(2, 4))
        a = rng.uniform(-1, 1, (m, n))
        if fam == "lin_split":
            lo, hi, ks = gen.limits(rng, m, a @ x0, kinds=("two",))
            spec["lin"] = [{"A": a.tolist(), "lb": lo.tolist(),
                            "ub": hi.tolist()}]
            s2 = copy.deepcopy(spec)
            s2["lin"] = [{"A": a.tolist(), "lb": [-math.inf] * m,
                          "ub": hi.tolist()},
                         {"A": a.tolist(), "lb": lo.tolist(),
                          "ub": [math.inf] * m}]
            kind = "two-sided linear vs (upper, lower)"
            if rng.random() < 0.3:
                # the two one-sided parts in the other order: the internal
                # rows are then (-A, A) instead of (A, -A)
                s2["lin"].reverse()
                kind = "regrouped linear rows: internal row order changes"
                tags.append("split_lower_first")
        else:
            r = rng.random()
            if r < 0.25:
                kinds = ("upper", "lower")
            elif r < 0.45:
                kinds = ("upper", "lower", "two", "eq")
            else:
                kinds = (str(rng.choice(["upper", "lower"])),)
            lo, hi, ks = gen.limits(rng, m, a @ x0, kinds=kinds)
            cut = int(rng.integers(1, m))
            if rng.random() < 0.2:
                # limits of very different magnitudes in one object: a huge
                # one-sided limit first, then a narrow two-sided row (what
                # 'lb = ub to rounding' means must not depend on the grouping)
                v0 = a @ x0
                lo[0], hi[0] = -math.inf, float(10.0 ** rng.uniform(8, 14))
                ks[0] = "upper"
                gap = float(10.0 ** rng.uniform(-6, -2))
                lo[1] = v0[1] - gap * float(rng.random())
                hi[1] = lo[1] + gap
                ks[1] = "two"
                cut = 1
                tags.append("mixed_magnitudes")
            elif rng.random() < 0.35:
                # the LAST row has limits a few ulps apart, next to 2..7
                # one-sided rows: whether such a pair is one equality or two
                # inequalities must not depend on how many rows the object
                # has (the internal row order is the same in both groupings)
                m = int(rng.integers(3, 9))
                a = rng.uniform(-1, 1, (m, n))
                v0 = a @ x0
                one = str(rng.choice(["upper", "lower"]))
                lo, hi, ks = gen.limits(rng, m, v0, kinds=(one,))
                lvl = float(v0[-1] + rng.uniform(-0.5, 0.5)) * float(
                    rng.choice([1.0, 1.0, 1e3]))
                ulps = int(rng.choice([2, 8, 15, 25, 35, 45, 70, 150]))
                lo[-1] = lvl
                hi[-1] = lvl + ulps * EPS * max(1.0, abs(lvl))
                ks[-1] = "two"
                cut = int(rng.choice([1, m - 1, m - 1]))
                tags.append("few_ulps_apart")
            spec["lin"] = [{"A": a.tolist(), "lb": lo.tolist(),
                            "ub": hi.tolist()}]
            s2 = copy.deepcopy(spec)
            s2["lin"] = [{"A": a[:cut].tolist(), "lb": lo[:cut].tolist(),
                          "ub": hi[:cut].tolist()},
                         {"A": a[cut:].tolist(), "lb": lo[cut:].tolist(),
                          "ub": hi[cut:].tolist()}]

            def order(groups):
                """Internal inequality-row order the solver documents: per
                object, the upper parts of its rows, then the lower parts."""
                out = []
                for g in groups:
                    out += [(i, "u") for i in g if ks[i] in ("upper", "two")]
                    out += [(i, "l") for i in g if ks[i] in ("lower", "two")]
                return out
            same_order = order([range(m)]) == order([range(cut),
                                                     range(cut, m)])
            kind = "regrouped linear rows" + (
                "" if same_order else ": internal row order changes")
            tags.append("regroup_order_" + ("same" if same_order
                                            else "changes"))
        ra, rb = mrun.run(spec), mrun.run(s2)
        compare(ra, rb, viols, kind, info)
        nt = f"{fam}|m{m}|n{n}|{spec['con_kind']}"
    elif fam == "nl_regroup":
        # one vector-valued NonlinearConstraint <-> one object per component
        # (same order, one-sided limits of one kind so that the internal order
        # is the same), with undefined values on ONE component at some
        # evaluations: what the solver sees must not depend on the grouping
        spec = base_spec(rng, str(rng.choice(["nl", "both"])))
        n = spec["n"]
        x0 = np.asarray(spec["x0"])
        m = int(rng.integers(2, 4))
        side = str(rng.choice(["upper", "lower"]))
        ent = gen.nonlinear_constraints(rng, n, x0, count=1, forms=("nlc",),
                                        kinds=(side,))[0]
        while len(ent["comps"]) < m:
            ent["comps"].append(gen.nl_component(rng, n))
        comps = ent["comps"][:m]
        from vlib.problems import base_component
        v0 = np.array([base_component(c, n)(x0) for c in comps])
        lim = (v0 + rng.uniform(-1, 1, m)).tolist()
        if side == "upper":
            lo, hi = [-math.inf] * m, lim
        else:
            lo, hi = lim, [math.inf] * m
        spec["nl"] = [{"comps": comps, "form": "nlc", "lb": lo, "ub": hi}]
        s2 = copy.deepcopy(spec)
        s2["nl"] = [{"comps": [comps[i]], "form": "nlc", "lb": [lo[i]],
                     "ub": [hi[i]]} for i in range(m)]
        if rng.random() < 0.7:
            ci = int(rng.integers(m))
            idx = sorted(set(int(v) for v in rng.integers(
                2, 25, int(rng.integers(1, 4)))))
            val = str(rng.choice(["nan", "nan", "inf"]))
            spec["faults"] = [{"target": "con", "j": 0, "comp": ci,
                               "val": val, "when": {"idx": idx}}]
            s2["faults"] = [{"target": "con", "j": ci, "comp": 0,
                             "val": val, "when": {"idx": idx}}]
            tags.append("component_fault")
        ra, rb = mrun.run(spec), mrun.run(s2)
        compare(ra, rb, viols, "vector nonlinear constraint vs one object "
                "per component", info)
        nt = f"nl_regroup|m{m}|n{n}|{side}|{spec['con_kind']}"
    elif fam == "nan_limits":
        # a NaN limit means "no limit": same problem with -inf / +inf
        spec = base_spec(rng, str(rng.choice(["lin", "nl", "both"])),
                         limit_kinds=("upper", "lower", "two", "eq"))
        s2 = copy.deepcopy(spec)
        changed = 0
        for key in ("lin", "nl"):
            for c1, c2 in zip(spec.get(key, []), s2.get(key, [])):
                if not isinstance(c1.get("lb"), list):
                    continue
                for i in range(len(c1["lb"])):
                    if math.isinf(c1["lb"][i]) and rng.random() < 0.7:
                        c1["lb"][i] = math.nan
                        changed += 1
                    if math.isinf(c1["ub"][i]) and rng.random() < 0.7:
                        c1["ub"][i] = math.nan
                        changed += 1
        if spec.get("bounds") and rng.random() < 0.5:
            for i in range(spec["n"]):
                if math.isinf(spec["bounds"]["lb"][i]):
                    spec["bounds"]["lb"][i] = math.nan
                    changed += 1
                if math.isinf(spec["bounds"]["ub"][i]):
                    spec["bounds"]["ub"][i] = math.nan
                    changed += 1
        ra, rb = mrun.run(spec), mrun.run(s2)
        compare(ra, rb, viols, "NaN limits vs infinite limits", info)
        if changed:
            nt = f"nan_limits|{spec['con_kind']}|n{spec['n']}|c{min(changed, 4)}"
    elif fam == "nl_split":
        spec = base_spec(rng, str(rng.choice(["nl", "both"])))
        n = spec["n"]
        x0 = np.asarray(spec["x0"])
        m = int(rng.integers(1, 3))
        comps = [gen.nl_component(rng, n) for _ in range(m)]
        v0 = np.array([problems.base_component(c, n)(x0) for c in comps])
        lo, hi, ks = gen.limits(rng, m, v0, kinds=("two",))
        spec["nl"] = [{"comps": comps, "form": "nlc", "lb": lo.tolist(),
                       "ub": hi.tolist()}]
        s2 = copy.deepcopy(spec)
        s2["nl"] = [{"comps": comps, "form": "nlc", "lb": lo.tolist(),
                     "ub": [math.inf] * m},
                    {"comps": comps, "form": "nlc", "lb": [-math.inf] * m,
                     "ub": hi.tolist()}]
        ra, rb = mrun.run(spec), mrun.run(s2)
        compare(ra, rb, viols, "two-sided nonlinear vs (lower, upper)", info)
        nt = f"nl_split|m{m}|n{n}|{spec['con_kind']}"
    else:
        con = str(rng.choice(["none", "lin", "nl", "both"]))
        n = int(rng.integers(2, 5))
        if fam == "fixed":
            pats = [str(rng.choice(["free", "lower", "upper", "two", "fixed",
                                    "fixed"])) for _ in range(n)]
        elif fam == "scale":
            pats = ["two"] * n
            if rng.random() < 0.25:
                pats = ["width2"] * n
            elif rng.random() < 0.3:
                pats = [str(rng.choice(["two", "width2", "zero"]))
                        for _ in range(n)]
        else:
            pats = [str(rng.choice(["two", "two", "fixed"]))
                    for _ in range(n)]
        if fam != "scale" and "fixed" not in pats:
            pats[int(rng.integers(n))] = "fixed"
        if all(p == "fixed" for p in pats):
            pats[0] = "two"
        spec = base_spec(rng, con, n=n, bound_patterns=("two",))
        x0 = np.asarray(spec["x0"])
        lb, ub, pats = gen.bounds(rng, n, x0, force=pats)
        if fam != "fixed" and rng.random() < 0.5:
            # widths over 6 decades (sometimes over 13)
            hi_dec = 3 if rng.random() < 0.7 else 10
            for i in range(n):
                if pats[i] == "two":
                    w = float(10.0 ** rng.uniform(-3, hi_dec))
                    c = 0.5 * (lb[i] + ub[i])
                    lb[i], ub[i] = c - 0.5 * w, c + 0.5 * w
        if fam != "scale" and rng.random() < 0.3:
            # a variable fixed at a huge value: nothing the solver does with
            # the OTHER variables may depend on its magnitude
            for i in range(n):
                if pats[i] == "fixed":
                    lb[i] = ub[i] = float(rng.choice([-1.0, 1.0])) * \
                        10.0 ** rng.uniform(6, 12)
                    break
        x0, _ = gen.place_x0(rng, x0, lb, ub)
        spec["x0"] = x0.tolist()
        spec["bounds"] = {"lb": lb.tolist(), "ub": ub.tolist(),
                          "form": "Bounds", "patterns": pats}
        spec["options"]["scale"] = fam != "fixed"
        if rng.random() < 0.25:
            # progress printing (stdout is discarded) on runs that reach
            # their first reductions of the resolution
            spec["options"]["disp"] = True
            spec["options"]["radius_init"] = 0.2
            spec["options"]["radius_final"] = 1e-3
            spec["options"]["maxfev"] = 150
        if "nb_points" in spec["options"]:
            nred = gen.reduced_dim(lb, ub)
            spec["options"]["nb_points"] = int(min(
                max(spec["options"]["nb_points"], nred + 1),
                (nred + 1) * (nred + 2) // 2))
        if rng.random() < 0.35:
            # budgets left to their defaults: the completed settings of the
            # two statements must agree as well (defaults are functions of
            # the number of FREE variables)
            for key in ("maxfev", "maxiter", "nb_points"):
                spec["options"].pop(key, None)
            tags.append("default_budgets")
        ra = mrun.run(spec)
        pb = ra.run.pb
        if pb is None or pb.n == 0 or (isinstance(ra.exc, ValueError)
                                       and not ra.run.evals):
            return e2e.record(case, [], tags=tags + ["skip"], skipped=True)
        # (if the first statement raised after the problem was built, the
        # second one is still run: one raising and the other returning is a
        # difference)
        rb = transformed_run(spec, ra)
        settings_compare(ra, rb, viols, info)
        kind = {"fixed": "fixed variables vs reduced problem",
                "scale": "scale=True vs explicit unit-box problem",
                "fixed_scale": "fixed+scaled vs reduced unit-box problem"}[fam]
        sc_a = bool(ra.run.settings.get("options", {}).get("scale"))

        def xmap(x, ra=ra, sc_a=sc_a, pb=pb):
            y = truth.user_point(ra.built, sc_a, np.asarray(x, float))
            return pb.build_x(x) if y is None else y
        compare(ra, rb, viols, kind, info, xmap=xmap, internal=True)
        residual_check(ra, rng, viols, info)
        nfix = int(np.count_nonzero(pb._fixed_idx))
        nonunit = bool(np.any(pb._scaling_factor != 1.0))
        if nfix or nonunit:
            nt = f"{fam}|{con}|n{n}|fix{nfix}|sc{int(nonunit)}"
    counts = {"pairs_compared": info.get("pairs", 0),
              "evaluations_compared": info.get("evals", 0),
              "residual_points": info.get("residual_points", 0),
              "settings_compared": info.get("settings_compared", 0)}
    for v in viols:
        v["witness"]["spec"] = e2e.jsonable(spec)
    sample = None
    if case["idx"] < 1:
        sample = {"restatement": fam, "spec": e2e.spec_brief(spec),
                  "evaluations_compared": info.get("evals")}
    return e2e.record(case, viols, nt=nt, tags=tags, counts=counts,
                      sample=sample)
