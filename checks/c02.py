"""C02 - the returned fun and maxcv are the true values at the returned x."""
import itertools

import numpy as np

from vlib import e2e, gen, mrun, oracles

ID = "C02"
LEVEL = "exploration"
RULE = ("the full configuration cross product {scale} x {no/some/all-but-one "
        "fixed} x {none,lin,nl,both} x {one-sided,two-sided,equality} x "
        "{Bounds,array} x {NonlinearConstraint,dict} (288 cells, every cell "
        "visited) with random instances and every termination (radius, "
        "maxfev, maxiter, target, callback, feasibility) plus NaN/inf plans; "
        "non-trivial = returned point has positive true violation / NaN-inf "
        "involved / an active constraint; distinct = cell x status")
RULE += ("  Also: limits of mixed magnitudes inside one constraint object (a narrow two-sided component next to limits of 1e4..1e300).")
RULE += (" General problems restated in variables of unit 1e-14..1e-9 / 1e6..1e9.")
ASSUMPTIONS = [
    "true maxcv recomputed by the harness in user variables from the user's "
    "objects and the raw values its spies logged",
    "slack 64*eps*(|A||x|+|b|) for linear rows, half the documented equality "
    "tolerance for nonlinear equalities; up to 1e3*slack counted gray",
]
REQUIRED = {"eval.post": 1000, "checked_results": 200}
MIN_NONTRIVIAL = {"quick": 30, "thorough": 200}
PLAN = [("cell", 1152, 17280), ("faulty", 300, 4000), ("general", 300, 4000), ("cross", 300, 6000)]

CELLS = list(itertools.product(
    (False, True), ("none", "some", "allbut1"), ("none", "lin", "nl", "both"),
    ("one", "two", "eq"), ("Bounds", "array"), ("nlc", "dict")))


def cases(tier, seed):
    return e2e.case_list(PLAN, tier, seed)


def cell_spec(rng, cell):
    scale, fixed, con, lim, bform, nform = cell
    n = int(rng.integers(2, 5))
    x0 = rng.uniform(-2, 2, n)
    if scale:
        pats = ["two"] * n
    else:
        pats = [str(rng.choice(["free", "lower", "upper", "two"]))
                for _ in range(n)]
    if fixed == "some":
        k = int(rng.integers(1, n))
        for i in rng.choice(n, k, replace=False):
            pats[int(i)] = "fixed"
    elif fixed == "allbut1":
        keep = int(rng.integers(n))
        pats = ["fixed" if i != keep else pats[i] for i in range(n)]
    lb, ub, pats = gen.bounds(rng, n, x0, force=pats)
    x0, where = gen.place_x0(rng, x0, lb, ub)
    kinds = {"one": ("upper", "lower"), "two": ("two",), "eq": ("eq",)}[lim]
    spec = {"n": n, "obj": gen.objective(rng, n, ("quad", "abs", "sinq",
                                                  "lin", "rosen")),
            "x0": x0.tolist(),
            "bounds": {"lb": lb.tolist(), "ub": ub.tolist(), "form": bform,
                       "patterns": pats}, "con_kind": con}
    if con in ("lin", "both"):
        spec["lin"] = gen.linear_constraints(rng, n, x0, count=1, kinds=kinds)
    if con in ("nl", "both"):
        if nform == "dict":
            forms = ("dict_eq",) if lim == "eq" else ("dict_ineq",)
        else:
            forms = ("nlc",)
        spec["nl"] = gen.nonlinear_constraints(rng, n, x0, forms=forms,
                                               kinds=kinds)
    o = {"maxfev": int(rng.integers(25, 140)), "scale": scale}
    term = str(rng.choice(["radius", "maxfev", "maxiter", "target",
                           "callback", "feas"]))
    if term == "radius":
        o["radius_final"] = float(10.0 ** rng.uniform(-3, -1))
        o["maxfev"] = 400
    elif term == "maxfev":
        o["maxfev"] = int(rng.integers(1, 14))
    elif term == "maxiter":
        o["maxiter"] = int(rng.integers(1, 12))
    elif term == "target":
        o["target"] = float(rng.uniform(-2, 20))
    elif term == "callback":
        spec["callback"] = {"conv": str(rng.choice(["kw", "pos"])),
                            "stop_at": int(rng.integers(1, 30))}
    elif term == "feas" and con != "none":
        spec["obj"] = {"kind": "none"}
    if rng.random() < 0.3:
        o["store_history"] = True
    spec["options"] = o
    spec["term"] = term
    return spec


def make_spec(case):
    rng = e2e.rng_of(ID, case)
    if case["fam"] == "cell":
        return cell_spec(rng, CELLS[case["idx"] % len(CELLS)])
    if case["fam"] == "faulty":
        return gen.general(rng, with_faults=True, con=str(
            rng.choice(["nl", "both", "lin"])), forms=("nlc", "dict_ineq",
                                                       "dict_eq"),
            fun_none=0.1, maxfev=(20, 100))
    spec = gen.general(rng, forms=("nlc", "dict_ineq", "dict_eq"),
                       fun_none=0.15, maxfev=(20, 120))
    if spec["con_kind"] != "none" and rng.random() < 0.15:
        gen.mixmag(rng, spec)
    elif rng.random() < 0.2 and not spec.get("faults"):
        # the same problem in variables of unit 1e-13..1e-9 (or 1e6..1e9):
        # consecutive points differ by far less than 1e-13 in absolute terms
        # and are still different points with their own values
        spec.pop("scribble", None)
        gen.tinyvars(spec, float(10.0 ** rng.choice(
            [-14, -13, -12, -10, -9, 6, 9])))
    return spec


def run_case(case):
    if case["fam"] == "cross":
        spec, _src = e2e.cross_spec(ID, case)
    else:
        spec = make_spec(case)
    rec = mrun.run(spec)
    viols, info = oracles.o_c02(rec)
    counts = e2e.base_counts(rec)
    tags = ["fam:" + case["fam"]]
    if rec.res is not None:
        counts["checked_results"] = 1
        tags.append("status:%s" % rec.res.status)
    cell = None
    if case["fam"] == "cell":
        cell = case["idx"] % len(CELLS)
        tags.append("cell:%d" % cell)
    nt = None
    if info.get("active_or_violated") or info.get("nonfinite"):
        st = rec.res.status if rec.res is not None else "exc"
        nt = (f"cell{cell}" if cell is not None else gen.spec_signature(spec)
              ) + f"|st{st}"
    sample = None
    if case["idx"] < 2:
        sample = {"spec": e2e.spec_brief(spec), "outcome": e2e.brief(rec),
                  "true_maxcv": info.get("true_maxcv")}
    return e2e.record(case, e2e.attach(viols, spec, rec), nt=nt, tags=tags,
                      counts=counts, gray=info.get("gray", 0), sample=sample,
                      maxes={"maxcv_err_over_tol":
                             info.get("maxcv_err_over_tol")})


def finish(agg, tier, seed):
    cells = sum(1 for t in agg["tags"] if t.startswith("cell:"))
    agg["counts"]["cells"] = cells
    out = {"cells_visited": cells, "cells_total": len(CELLS)}
    if cells < 250:
        out["inconclusive"] = [f"only {cells} of 288 configuration cells ran"]
    return out
