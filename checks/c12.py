"""C12 - models interpolate the recorded values after every update, shift
and reset."""
import numpy as np

EPS = np.finfo(float).eps

from vlib import e2e, gen, mrun, ctx, drive, taps
from vlib.interp import InterpMonitor

ID = "C12"
LEVEL = "exploration"
RULE = ("contract on Models.__init__ / update_interpolation / shift_x_base / "
        "reset_models with a running error bound kept by the monitor (fresh: "
        "C*N*eps*cond2(scaled KKT)*|values| + truncated component; update: "
        "+ C*N*eps*cond2*|d| + truncated component; every evaluation + "
        "8*eps*sum|terms|), three-zone verdict (held <= 1e3*raw bound, "
        "violation > 1e6*raw bound, meaningless bounds skipped), evaluated (a) "
        "on direct-driven histories of up to 60 operations on a real Models "
        "(n=1..5, every admissible nb_points, 0-3 constraint models, indices "
        "chosen at random or by largest/smallest determinant ratio, new "
        "points near / far / duplicate / collinear / tiny displacement) and "
        "(b) on every real run of a hostile workload (tiny anisotropic boxes, "
        "radius_final=0, NaN / infinite / beyond-barrier values).  Second "
        "clause: the recorded values are bitwise what Problem.__call__ "
        "returned for that very point, every user call of the round was made "
        "at build_x(point), and what Problem.__call__ returned is the "
        "barrier-clipped image (NaN -> 2**100, clip to +-2**100) of what the "
        "user functions returned in that round (monitor's own clip).  "
        "Non-trivial = history with >=1 constraint model and >=10 updates, or "
        "with a degenerate event followed by recovery; distinct = (n, npt, "
        "#models, operation pattern)")
RULE += ("  Also: every evaluation whose values reach the models contains an objective call (values measured in that evaluation); long default-option runs to convergence.")
RULE += (" The image (before projection) of the point the values are recorded for is where they were measured.")
ASSUMPTIONS = [
    "a numerically singular interpolation system carries no claim (skipped, "
    "counted); the bound recovers on reset_models",
    "numpy eigh on the monitor's copy of the scaled KKT matrix is trusted for "
    "the conditioning estimate",
]
REQUIRED = {"node_checks_judged": 20000, "contract_events": 3000,
            "recorded_value_checks": 2000, "constraint_model_updates": 1000,
            "ill_conditioned_updates": 5, "barrier_active": 20}
MIN_NONTRIVIAL = {"quick": 50, "thorough": 400}
PLAN = [("driven", 500, 8000), ("real", 300, 4000), ("hostile", 200, 3000),
        ("long", 40, 400), ("repotests", 1, 1)]
MAXOPS = {"quick": 40, "thorough": 60}


def cases(tier, seed):
    out = e2e.case_list(PLAN, tier, seed)
    for c in out:
        c["maxops"] = MAXOPS.get(tier, 40)
    return out


def run_driven(case):
    rng = e2e.rng_of(ID, case)
    taps.install()
    mon = InterpMonitor(check_values=False)
    r = ctx.Run()
    mon.attach(r)
    nops = 0
    ncon_upd = 0
    with ctx.active(r):
        h = drive.History(rng, radius=float(10.0 ** rng.uniform(-3, 2))
                          if rng.random() < 0.3 else 1.0)
        nmod = h.mc_ub + h.mc_eq
        for _ in range(case.get("maxops", 40)):
            d = h.step()
            if d is None or mon.viols:
                break
            nops += 1
            if d["op"] == "update":
                ncon_upd += nmod
    if r.hook_errors:
        raise RuntimeError("monitor hook failed:\n" + r.hook_errors[0])
    counts = mon.counts()
    counts["driven_operations"] = nops
    counts["constraint_model_updates"] = ncon_upd
    upd = sum(1 for o in h.ops if o.startswith("update"))
    nt = None
    if (nmod >= 1 and upd >= 10) or mon.recovered:
        pat = "".join(o[0] + (o.split(":")[1][:1] if ":" in o else "")
                      for o in h.ops)[:60]
        nt = f"n{h.n}|npt{h.npt}|m{nmod}|{pat}"
    for v in mon.viols:
        v["witness"].update({"n": h.n, "npt": h.npt, "mc_ub": h.mc_ub,
                             "mc_eq": h.mc_eq, "ops": h.ops[-12:]})
    sample = None
    if case["idx"] < 2:
        sample = {"n": h.n, "npt": h.npt, "constraint_models": nmod,
                  "operations": h.ops[:25], "judged": mon.judged,
                  "skipped": mon.skipped,
                  "worst_error_over_bound": mon.worst}
    return e2e.record(case, mon.viols, nt=nt, tags=["fam:driven"],
                      counts=counts, gray=mon.gray, sample=sample,
                      maxes={"error_over_bound": mon.worst})


def run_real(case):
    rng = e2e.rng_of(ID, case)
    if case["fam"] == "long":
        # long default-option runs to convergence: late trial points agree
        # with their predecessors to 5-6 digits
        n = int(rng.integers(2, 4))
        spec = gen.general(rng, n=n, con=str(rng.choice(["none", "nl"])),
                           obj_kinds=("rosen", "quad", "sinq"),
                           bound_patterns="none", with_callback=False,
                           opt_allow=(), maxfev=(400, 600))
        spec["x0"] = (np.asarray(spec["x0"]) * 3.0 + 5.0).tolist()
        spec.pop("rtype", None)
    elif case["fam"] == "hostile":
        spec = gen.general(rng, bound_patterns=("tiny", "narrow", "two",
                                                "nearfixed"),
                           maxfev=(40, 150), forms=("nlc",),
                           con=str(rng.choice(["nl", "both", "none"])))
        if rng.random() < 0.5:
            spec["options"]["radius_final"] = 0.0
            spec["options"].setdefault("radius_init", 1.0)
    else:
        spec = gen.general(rng, maxfev=(40, 160), forms=("nlc", "dict_ineq"),
                           with_faults=bool(rng.random() < 0.15))
    if case["fam"] == "hostile" and rng.random() < 0.35 and \
            spec["obj"]["kind"] != "none":
        # finite values beyond the extreme barrier, NaN and infinities at
        # some of the points that enter the interpolation set
        spec["faults"] = gen.fault_plan(rng, spec, density=2)
    mon = InterpMonitor()
    rec = mrun.run(spec, setup=mon.attach)
    counts = e2e.base_counts(rec)
    counts.update(mon.counts())
    from vlib import oracles as _o
    bv, binfo = _o.o_barrier(rec)
    counts["barrier_checks"] = binfo["barrier_checks"]
    counts["barrier_active"] = binfo["barrier_active"]
    if bv and not mon.viols:
        mon.viols.extend(bv)
    # second clause, user side: the values recorded for an interpolation
    # point were returned by the user functions AT THAT VERY POINT, i.e.
    # every user call of an evaluation round was made at build_x(point)
    npts = 0
    for ev in rec.run.evals:
        if ev["ret"] is None or mon.viols:
            continue
        want = _o.user_of(rec, ev["pb"], ev["x"])
        # the point the values are RECORDED for is the solver's point itself:
        # its image before projection must be where the functions were
        # called (a projection beyond rounding means the values belong to
        # another point than the one they are recorded for)
        from vlib import truth as _t
        raw = _t.user_point(rec.built, bool(_o.completed_options(rec).get(
            "scale")), ev["x"], project=False)
        if raw is not None and np.all(np.isfinite(raw)) and \
                np.all(np.isfinite(want)):
            bt = rec.built
            wid = np.where(np.isfinite(bt.ub - bt.lb), bt.ub - bt.lb, 0.0)
            lim = 256 * EPS * (np.maximum(1.0, np.maximum(np.abs(raw),
                                                          np.abs(want)))
                               + wid + float(np.max(np.abs(raw))))
            if np.any(np.abs(raw - want) > lim):
                from vlib.oracles import V
                mon.viols.append(V(
                    "recorded_value_other_point",
                    f"evaluation {ev['i']}: the values are recorded for the "
                    f"solver's point whose image is {raw.tolist()[:4]} but "
                    f"were measured at its projection {want.tolist()[:4]}",
                    mechanism="recorded_projected_point"))
                break
        sl = rec.run.log[ev["log0"]:ev.get("log1", ev["log0"])]
        if rec.built.fun is not None and \
                not any(e["t"] == "obj" for e in sl):
            from vlib.oracles import V
            mon.viols.append(V(
                "recorded_value_not_measured",
                f"evaluation {ev['i']}: values were handed to the models for "
                f"the point {want.tolist()[:4]} although the objective was "
                f"not called in that evaluation (the values were measured "
                f"elsewhere)", mechanism="recorded_not_measured"))
            break
        for e in sl:
            if e["t"] in ("obj", "con"):
                npts += 1
                if e["x"].shape != want.shape or \
                        e["x"].tobytes() != want.tobytes():
                    from vlib.oracles import V
                    mon.viols.append(V(
                        "recorded_value_other_point",
                        f"evaluation {ev['i']}: the {e['t']} function was "
                        f"called at {e['x'].tolist()[:4]} but the value is "
                        f"recorded for the point {want.tolist()[:4]}",
                        mechanism="recorded_other_point"))
                    break
    counts["user_call_points_checked"] = npts
    if case["idx"] % 10 == 0:
        mon.viols += e2e.audit(spec, rec, counts)
    nmod = 0
    if rec.run.tr is not None and hasattr(rec.run.tr, "_models"):
        mm = rec.run.tr.models
        nmod = mm.m_nonlinear_ub + mm.m_nonlinear_eq
    upd = rec.run.counts.get("models.update.post", 0)
    counts["constraint_model_updates"] = nmod * upd
    nt = None
    if (nmod >= 1 and upd >= 10) or mon.recovered:
        nt = "real|" + gen.spec_signature(spec) + f"|m{nmod}|ill{mon.ill > 0}"
    sample = None
    if case["idx"] < 2:
        sample = {"spec": e2e.spec_brief(spec), "outcome": e2e.brief(rec),
                  "judged": mon.judged, "skipped": mon.skipped,
                  "worst_error_over_bound": mon.worst,
                  "ill_conditioned_updates": mon.ill}
    return e2e.record(case, e2e.attach(mon.viols, spec, rec), nt=nt,
                      tags=["fam:" + case["fam"]], counts=counts,
                      gray=mon.gray, sample=sample,
                      maxes={"error_over_bound": mon.worst})


def run_case(case):
    if case["fam"] == "driven":
        return run_driven(case)
    if case["fam"] == "repotests":
        from vlib import repotests
        viols, counts = repotests.run(ID)
        return e2e.record(case, viols, tags=["fam:repotests"], counts=counts,
                          nt="repotests")
    return run_real(case)
