"""C19 - options and constants are validated and completed consistently."""
import itertools
import math
import warnings

import numpy as np

from vlib import e2e, mrun
from vlib.oracles import V, feq
from vlib.refs import settings_spec as S

ID = "C19"
LEVEL = "exploration"
RULE = ("every numeric option / constant over its boundary lattice (below, "
        "at, just inside by nextafter, typical, just inside the other end, "
        "at, above) for n=1..3 - exhaustive; every coupled pair "
        "(radius_init/final, low/high ratio, decrease_radius_threshold / "
        "increase_radius_factor, moderate/large resolution threshold, "
        "penalty threshold/factor) over the product lattice, i.e. in every "
        "order relation - exhaustive; nb_points vs n and maxfev vs "
        "nb_points; random subsets of the 33 settings; unknown names.  The "
        "outcome (ValueError / RuntimeWarning / run) and the completed "
        "dictionaries seen by the taps on _set_default_options, "
        "_set_default_constants and TrustRegion.__init__ are compared with "
        "the documented table (refs/settings_spec.py).  Non-trivial = a "
        "value on or next to a domain boundary or a derived partner; "
        "distinct = (setting(s), lattice position(s))")
RULE += ("  Also: lattice positions 'fraction' (0.5 for sizes / budgets) and 'nan'; unknown constant names equal to internal parameter names; nb_points below n+1 combined with exits during the initial sampling (a ValueError raised only after user functions were called is a violation); nb_points against the number of FREE variables; all-fixed / inconsistent bounds with invalid settings; the same options dict object reused for two calls.")
RULE += (" Lattice position 'inf'; family narrow_box: the radii the framework works with after the documented adjustment to the bounds.")
RULE += (' Family debug_sizes: debug=True must not change which exception an invalid size raises.')
ASSUMPTIONS = [
    "the documented table (domains, defaults, relations) is transcribed "
    "from the minimize docstring, settings.py and the error messages",
    "'raise ValueError rather than run with it': a ValueError raised only "
    "after user functions were called is a violation (clause "
    "late_rejection; it was accepted until fix 90f694b moved the nb_points "
    ">= n+1 test to the validation of the options)",
]
REQUIRED = {"calls": 500, "rejected": 100, "ran": 100,
            "completed_settings_checked": 100}
MIN_NONTRIVIAL = {"quick": 200, "thorough": 400}

NUMERIC = [k for k, v in list(S.OPTIONS.items()) + list(S.CONSTANTS.items())
           if v[0] != "bool"]


def _single_list():
    out = []
    for n in (1, 2, 3):
        for name in NUMERIC:
            for pos, val in S.lattice(name, n):
                out.append((n, name, pos, val))
    return out


def _pair_list():
    out = []
    for a, b, rel in S.COUPLED:
        for (pa, va), (pb_, vb) in itertools.product(S.lattice(a, 2),
                                                     S.lattice(b, 2)):
            out.append((a, pa, va, b, pb_, vb))
        # explicit order relations around each other
        for va, vb in ((0.5, 0.5), (0.5, math.nextafter(0.5, 1)),
                       (math.nextafter(0.5, 1), 0.5), (1.5, 1.5),
                       (1.5, math.nextafter(1.5, 2)),
                       (math.nextafter(1.5, 2), 1.5), (3.0, 2.0), (2.0, 3.0)):
            out.append((a, "rel", va, b, "rel", vb))
    return out


SINGLES = _single_list()
PAIRS = _pair_list()
PLAN = [("single", len(SINGLES), len(SINGLES)),
        ("pair", len(PAIRS), len(PAIRS)),
        ("subset", 400, 6000), ("unknown", 120, 600), ("npt_low", 80, 600),
        ("npt_fixed", 80, 600), ("reuse", 60, 400),
        ("narrow_box", 80, 600), ("debug_sizes", 60, 400),
        ("degenerate", 150, 1500),
        ("defaults", 4, 8)]
EXHAUSTIVE = False


def cases(tier, seed):
    return e2e.case_list(PLAN, tier, seed)


def base_spec(n, rng=None):
    c = (np.arange(1, n + 1) * 0.3).tolist()
    return {"n": n, "obj": {"kind": "quad", "Q": np.eye(n).tolist(), "c": c},
            "x0": [0.0] * n, "options": {}, "constants": {}}


def put(spec, name, val):
    if name in S.OPTIONS:
        spec["options"][name] = val
    else:
        spec["constants"][name] = val


def expected_valid(n, supplied):
    reasons = []
    for k, v in supplied.items():
        if not S.in_domain(k, v, n):
            reasons.append(f"{k}={v!r} outside its domain")
    for a, b, rel in S.COUPLED:
        if a in supplied and b in supplied and not S.rel_holds(
                supplied[a], supplied[b], rel):
            reasons.append(f"{a}={supplied[a]!r} {rel} {b}={supplied[b]!r} "
                           f"violated")
    return reasons


def check_completed(n, supplied, rec, viols, info):
    st = rec.run.settings
    opts = st.get("tr_options") or st.get("options")
    cons = st.get("tr_constants") or st.get("constants")
    if opts is None or cons is None:
        return
    info["completed"] = 1
    d_o, d_c = S.defaults(n, opts.get("nb_points"))
    merged = dict(opts)
    merged.update(cons)
    for k, v in supplied.items():
        if k not in merged:
            viols.append(V("supplied_missing", f"supplied {k} absent from the "
                                               f"completed settings"))
            continue
        kind = (S.OPTIONS.get(k) or S.CONSTANTS.get(k))[0]
        want = {"float": float, "int": int, "bool": bool}[kind](v)
        if merged[k] != want:
            viols.append(V("supplied_changed",
                           f"supplied {k}={v!r} completed as {merged[k]!r}",
                           mechanism="supplied_changed:" + k))
    for table, dflt in ((S.OPTIONS, d_o), (S.CONSTANTS, d_c)):
        for k in table:
            if k in supplied:
                continue
            if k not in merged:
                viols.append(V("setting_missing", f"completed settings lack "
                                                  f"{k}"))
                continue
            partner = S.PARTNER.get(k)
            if partner in supplied:
                # derived from its partner: for the '<=' pairs the documented
                # rule is "the default unless the relation forces the
                # partner's value"
                for a, b, rel in S.COUPLED:
                    if rel != "<=" or k not in (a, b):
                        continue
                    pv = merged.get(partner)
                    want = max(dflt[k], pv) if k == b else min(dflt[k], pv)
                    if merged[k] != want:
                        viols.append(V(
                            "derived_value",
                            f"{k} derived from {partner}={pv!r} as "
                            f"{merged[k]!r}; documented default {dflt[k]!r} "
                            f"adjusted to the relation gives {want!r}",
                            mechanism="derived_value:" + k))
                continue
            if k == "maxfev" and "nb_points" in supplied:
                want = max(500 * n, int(supplied["nb_points"]) + 1)
            else:
                want = dflt[k]
            if merged[k] != want:
                viols.append(V("default_value",
                               f"unspecified {k} completed as {merged[k]!r}, "
                               f"documented default {want!r}",
                               mechanism="default:" + k))
    for k in list(S.OPTIONS) + list(S.CONSTANTS):
        if k in merged and not S.in_domain(k, merged[k], n):
            derived = k not in supplied
            viols.append(V("completed_outside_domain",
                           f"completed {k}={merged[k]!r} is outside its "
                           f"documented domain (supplied: {supplied})",
                           mechanism=("derived:" if derived else "kept:") + k
                           + ("<-" + S.PARTNER[k] if derived and
                              k in S.PARTNER else "")))
    for a, b, rel in S.COUPLED:
        if a in merged and b in merged and not S.rel_holds(merged[a],
                                                           merged[b], rel):
            viols.append(V("completed_relation",
                           f"completed settings violate {a} {rel} {b}: "
                           f"{merged[a]!r} vs {merged[b]!r} (supplied: "
                           f"{supplied})",
                           mechanism="relation:" + a + "," + b))


def judge(n, supplied, rec, viols, info):
    reasons = expected_valid(n, supplied)
    exc = rec.exc
    info["calls"] = 1
    if reasons:
        if isinstance(exc, ValueError):
            info["rejected"] = 1
            if rec.run.counts.get("eval.pre") or rec.run.log:
                # rejected, but only after user functions had been called
                info["late_rejection"] = 1
                viols.append(V("late_rejection",
                               f"invalid settings {supplied} "
                               f"({'; '.join(reasons)}) were rejected only "
                               f"after {len(rec.run.evals)} evaluation(s) of "
                               f"the user's functions",
                               mechanism="late:" + ",".join(sorted(supplied))))
        elif exc is None:
            viols.append(V("invalid_accepted",
                           f"minimize ran with invalid settings {supplied} "
                           f"({'; '.join(reasons)})",
                           mechanism="accepted:" + ",".join(sorted(supplied))))
        else:
            viols.append(V("invalid_wrong_exception",
                           f"settings {supplied}: raised "
                           f"{type(exc).__name__}: {str(exc)[:120]}"))
    else:
        if exc is not None:
            viols.append(V("valid_rejected",
                           f"valid settings {supplied} raised "
                           f"{type(exc).__name__}: {str(exc)[:160]}",
                           mechanism="rejected:" + ",".join(sorted(supplied))))
        else:
            info["ran"] = 1
            check_completed(n, supplied, rec, viols, info)


def run_case(case):
    rng = e2e.rng_of(ID, case)
    fam = case["fam"]
    viols = []
    info = {}
    nt = None
    sample = None
    if fam == "single":
        n, name, pos, val = SINGLES[case["idx"]]
        spec = base_spec(n)
        if name != "maxfev":
            spec["options"]["maxfev"] = 3 * n + 8
        put(spec, name, val)
        supplied = dict(spec["options"])
        supplied.update(spec["constants"])
        rec = mrun.run(spec)
        judge(n, supplied, rec, viols, info)
        nt = f"{name}|{pos}|n{n}"
        sample = {"n": n, "setting": name, "position": pos, "value": val,
                  "outcome": "ValueError" if isinstance(rec.exc, ValueError)
                  else ("ran" if rec.exc is None else type(rec.exc).__name__)}
    elif fam == "pair":
        a, pa, va, b, pb_, vb = PAIRS[case["idx"]]
        n = 2
        spec = base_spec(n)
        spec["options"]["maxfev"] = 14
        order = [(a, va), (b, vb)]
        if case["idx"] % 2:
            order.reverse()
        for k, v in order:
            put(spec, k, v)
        supplied = dict(spec["options"])
        supplied.update(spec["constants"])
        rec = mrun.run(spec)
        judge(n, supplied, rec, viols, info)
        nt = f"{a}:{pa}|{b}:{pb_}" + (f"|{va}|{vb}" if pa == "rel" else "")
        sample = {"pair": [a, va, b, vb],
                  "outcome": "ValueError" if isinstance(rec.exc, ValueError)
                  else ("ran" if rec.exc is None else type(rec.exc).__name__)}
    elif fam == "subset":
        n = int(rng.integers(1, 5))
        spec = base_spec(n)
        names = list(S.OPTIONS) + list(S.CONSTANTS)
        k = int(rng.integers(1, 9))
        chosen = [names[int(i)] for i in rng.choice(len(names), k,
                                                    replace=False)]
        pos_used = []
        for name in chosen:
            lat = S.lattice(name, n)
            if rng.random() < 0.7:
                lat = [(p, v) for p, v in lat if S.in_domain(name, v, n)] \
                    or lat
            p, v = lat[int(rng.integers(len(lat)))]
            if name == "disp" or name == "debug":
                v = False
            put(spec, name, v)
            pos_used.append(f"{name}:{p}")
        if "maxfev" not in spec["options"]:
            spec["options"]["maxfev"] = 3 * n + 8
        elif spec["options"]["maxfev"] > 100:
            spec["options"]["maxfev"] = 60
        if spec["options"].get("maxiter", 0) > 1000:
            spec["options"]["maxiter"] = 1000
        supplied = dict(spec["options"])
        supplied.update(spec["constants"])
        rec = mrun.run(spec)
        judge(n, supplied, rec, viols, info)
        nt = "subset|" + ",".join(sorted(pos_used))
        sample = {"n": n, "supplied": supplied}
    elif fam == "unknown":
        n = int(rng.integers(1, 4))
        spec = base_spec(n)
        spec["options"]["maxfev"] = 3 * n + 10
        ref = mrun.run(spec)
        spec2 = base_spec(n)
        spec2["options"]["maxfev"] = 3 * n + 10
        where = str(rng.choice(["option", "constant", "both"]))
        # the value carried by an unknown name is nobody's business: it may
        # be non-finite or not a number at all
        odd = [7.0, 7.0, "inf", "nan", None, -1.0, "-inf"]
        if where in ("option", "both"):
            spec2["options"]["max_fev"] = [3, 3, "inf", "nan", None][
                int(rng.integers(5))]
        if where in ("constant", "both"):
            # a misspelt constant, or a name that happens to be a parameter
            # of an internal routine the constants are forwarded to
            uname = str(rng.choice(["radius_increase", "radius_increase",
                                    "debug", "delta", "xl", "xu", "grad",
                                    "hess_prod", "aub", "bub", "aeq", "beq",
                                    "const", "curv", "xpt", "kwargs", "self",
                                    "pb", "penalty"]))
            spec2["constants"][uname] = odd[int(rng.integers(len(odd)))] \
                if uname != "debug" else True
            where = where + ":" + ("misspelt" if uname == "radius_increase"
                                   else "internal_parameter_name")
        rec = mrun.run(spec2)
        info["calls"] = 1
        warned = [w for w in rec.warnings if w[0] == "RuntimeWarning"
                  and "nknown" in w[1]]
        want = 2 if where.startswith("both") else 1
        if rec.exc is not None:
            viols.append(V("unknown_name_raises",
                           f"unknown {where} name "
                           f"{sorted(spec2['constants'])} raised "
                           f"{type(rec.exc).__name__}: {str(rec.exc)[:100]}",
                           mechanism="unknown:" + where))
        else:
            info["ran"] = 1
            if len(warned) < want:
                viols.append(V("unknown_name_no_warning",
                               f"unknown {where} name produced "
                               f"{len(warned)} RuntimeWarning(s), expected "
                               f"{want}"))
            same = (ref.res is not None and
                    [e["x"].tobytes() for e in ref.run.evals] ==
                    [e["x"].tobytes() for e in rec.run.evals] and
                    np.asarray(ref.res.x).tobytes() ==
                    np.asarray(rec.res.x).tobytes() and
                    feq(ref.res.fun, rec.res.fun) and
                    ref.res.status == rec.res.status)
            if not same:
                viols.append(V("unknown_name_alters_run",
                               f"an unknown {where} name changed the run"))
        nt = f"unknown|{where}|n{n}"
        sample = {"unknown": where, "warnings": warned[:2]}
    elif fam == "degenerate":
        # the restrictions are enforced whatever the problem: all variables
        # fixed by the bounds, or inconsistent bounds (the run returns before
        # any model is built)
        n = int(rng.integers(1, 4))
        spec = base_spec(n)
        kind = str(rng.choice(["allfixed", "inconsistent"]))
        x0 = np.asarray(spec["x0"], float)
        if kind == "allfixed":
            lb = ub = x0 + 0.25
        else:
            lb, ub = x0 + 1.0, x0 - 1.0
        spec["bounds"] = {"lb": np.asarray(lb).tolist(),
                          "ub": np.asarray(ub).tolist(), "form": "Bounds"}
        names = [k for k in NUMERIC if k != "nb_points"]
        name = names[int(rng.integers(len(names)))]
        lat = S.lattice(name, n)
        pos, val = lat[int(rng.integers(len(lat)))]
        spec["options"]["maxfev"] = 20
        put(spec, name, val)
        if rng.random() < 0.3:
            spec["constants"]["radius_increase"] = 7.0   # unknown name
        supplied = {k: v for k, v in list(spec["options"].items())
                    + list(spec["constants"].items())
                    if k != "radius_increase"}
        rec = mrun.run(spec)
        reasons = expected_valid(n, supplied)
        info["calls"] = 1
        if reasons:
            if isinstance(rec.exc, ValueError):
                info["rejected"] = 1
            else:
                viols.append(V(
                    "invalid_accepted",
                    f"{kind} bounds: minimize "
                    f"{'ran' if rec.exc is None else 'raised ' + type(rec.exc).__name__}"
                    f" with invalid settings {supplied} "
                    f"({'; '.join(reasons)})",
                    mechanism="degenerate:" + kind))
        elif rec.exc is not None:
            viols.append(V("valid_rejected",
                           f"{kind} bounds: valid settings {supplied} raised "
                           f"{type(rec.exc).__name__}: {str(rec.exc)[:120]}",
                           mechanism="degenerate:" + kind))
        else:
            info["ran"] = 1
            if "radius_increase" in spec["constants"] and not [
                    w for w in rec.warnings if w[0] == "RuntimeWarning"
                    and "nknown" in w[1]]:
                viols.append(V("unknown_name_no_warning",
                               f"{kind} bounds: unknown constant name "
                               f"produced no RuntimeWarning",
                               mechanism="degenerate:" + kind))
        nt = f"degenerate|{kind}|{name}|{pos}"
        sample = {"bounds": kind, "setting": name, "value": val}
    elif fam == "npt_fixed":
        # variables fixed by the bounds are eliminated: nb_points is checked
        # against the number of FREE variables
        n_orig = int(rng.integers(2, 5))
        nfix = int(rng.integers(1, n_orig))
        n = n_orig - nfix
        spec = base_spec(n_orig)
        lb = np.full(n_orig, -5.0)
        ub = np.full(n_orig, 5.0)
        fixed = rng.choice(n_orig, nfix, replace=False)
        lb[fixed] = ub[fixed] = 0.25
        spec["bounds"] = {"lb": lb.tolist(), "ub": ub.tolist(),
                          "form": "Bounds"}
        hi_red = (n + 1) * (n + 2) // 2
        hi_orig = (n_orig + 1) * (n_orig + 2) // 2
        cands = [("below", n), ("at_lo", n + 1), ("typical", min(2 * n + 1,
                                                                 hi_red)),
                 ("at_hi", hi_red), ("above", hi_red + 1),
                 ("orig_typical", 2 * n_orig + 1), ("orig_hi", hi_orig)]
        pos, npt = cands[int(rng.integers(len(cands)))]
        spec["options"] = {"nb_points": npt, "maxfev": 3 * n_orig + 8}
        supplied = dict(spec["options"])
        rec = mrun.run(spec)
        judge(n, supplied, rec, viols, info)
        for v in viols:
            v["witness"]["mechanism"] = "npt_fixed:" + pos
        nt = f"npt_fixed|n{n_orig}|fix{nfix}|{pos}"
        sample = {"n_orig": n_orig, "fixed": nfix, "nb_points": npt,
                  "outcome": "ValueError" if isinstance(rec.exc, ValueError)
                  else ("ran" if rec.exc is None else type(rec.exc).__name__)}
    elif fam == "reuse":
        # the SAME options dict object passed to two calls (different
        # dimensions / coupled settings): the second call must behave as with
        # a fresh copy (nothing completed by the first call may stick)
        import cobyqa
        from vlib import ctx as _ctx
        n1, n2 = [int(v) for v in rng.choice([1, 2, 3, 5, 6], 2,
                                             replace=False)]
        base = [{"disp": False}, {"maxfev": 40}, {"radius_final": 1e-3},
                {"radius_init": 0.5}, {"scale": False},
                {"feasibility_tol": 1e-6}][int(rng.integers(6))]
        shared = dict(base)
        outs = []
        for n_, opt in ((n1, shared), (n2, shared), (n2, dict(base))):
            r = _ctx.Run()
            with warnings.catch_warnings():
                warnings.simplefilter("ignore")
                with _ctx.active(r):
                    try:
                        res = cobyqa.minimize(
                            lambda x: float(np.sum((x - 0.3) ** 2)),
                            np.zeros(n_), options=opt)
                        outs.append(("ok", res.x.tobytes(), int(res.nfev),
                                     int(res.status),
                                     dict(r.settings.get("options", {}))))
                    except Exception as exc:  # noqa: BLE001
                        outs.append(("exc", type(exc).__name__,
                                     str(exc)[:100]))
        info["calls"] = 3
        info["ran"] = 1
        if outs[1][:4] != outs[2][:4]:
            viols.append(V("options_dict_reuse",
                           f"options dict {base} reused after a call with "
                           f"n={n1}: the call with n={n2} gives "
                           f"{outs[1][:4]!r}, with a fresh dict "
                           f"{outs[2][:4]!r}", mechanism="reuse"))
        elif outs[1][0] == "ok" and outs[1][4] != outs[2][4]:
            viols.append(V("options_dict_reuse",
                           f"options dict {base} reused: completed options "
                           f"differ from those of a fresh dict",
                           mechanism="reuse:completed"))
        if shared != base:
            viols.append(V("options_dict_modified",
                           f"the options dict passed in was modified: "
                           f"{base} -> {sorted(shared)}",
                           mechanism="reuse:modified"))
        nt = f"reuse|{sorted(base)}|{n1}|{n2}"
        sample = {"options": base, "n": [n1, n2]}
    elif fam == "narrow_box":
        # documented adjustment to the bounds: radius_init is capped at half
        # the smallest box width, radius_final at the new radius_init, and
        # nothing else changes
        n = int(rng.integers(1, 4))
        spec = base_spec(n)
        w = rng.choice([0.3, 0.5, 1.0, 3.0, 8.0], n)
        lb = -0.4 * w
        ub = lb + w
        spec["bounds"] = {"lb": lb.tolist(), "ub": ub.tolist(),
                          "form": "Bounds"}
        spec["options"]["maxfev"] = 3 * n + 8
        pick = int(rng.integers(5))
        if pick in (1, 3):
            spec["options"]["radius_init"] = float(rng.choice([0.1, 0.4, 1.0,
                                                               5.0]))
        if pick in (2, 3):
            spec["options"]["radius_final"] = float(rng.choice(
                [1e-8, 1e-3, 0.05]))
        ri, rf = spec["options"].get("radius_init"), \
            spec["options"].get("radius_final")
        if ri is not None and rf is not None and ri < rf:
            spec["options"]["radius_final"] = rf = ri
        supplied = dict(spec["options"])
        rec = mrun.run(spec)
        info["calls"] = 1
        post = rec.run.settings.get("tr_options_post")
        if rec.exc is not None or post is None:
            viols.append(V("valid_rejected",
                           f"valid settings {supplied} with a narrow box: "
                           f"{type(rec.exc).__name__ if rec.exc else 'no TR'}",
                           mechanism="narrow_box"))
        else:
            info["ran"] = 1
            info["completed"] = 1
            c_ri = ri if ri is not None else max(1.0, rf or 0.0)
            c_rf = rf if rf is not None else min(1e-6, c_ri)
            cap = 0.5 * float(np.min(w))
            e_ri = min(c_ri, cap)
            e_rf = min(c_rf, e_ri) if c_ri > cap else c_rf
            g_ri, g_rf = float(post["radius_init"]), float(post[
                "radius_final"])
            if not (math.isclose(g_ri, e_ri, rel_tol=1e-12)
                    and math.isclose(g_rf, e_rf, rel_tol=1e-12)):
                viols.append(V(
                    "radii_adjusted_to_bounds",
                    f"supplied {supplied}, smallest box width "
                    f"{float(np.min(w))}: the solver works with radius_init="
                    f"{g_ri!r}, radius_final={g_rf!r}; documented: "
                    f"{e_ri!r}, {e_rf!r}", mechanism="narrow_box:radii"))
        nt = f"narrow_box|n{n}|{pick}|{float(np.min(w))}"
        sample = {"supplied": supplied, "min_width": float(np.min(w))}
    elif fam == "debug_sizes":
        # debug=True must not change which exception an invalid size raises
        n = int(rng.integers(1, 4))
        spec = base_spec(n)
        spec["options"]["maxfev"] = 3 * n + 8
        spec["options"]["debug"] = True
        name = str(rng.choice(["filter_size", "history_size", "maxfev",
                               "maxiter", "nb_points"]))
        val = [0, -1, 0.5, 1, 3][int(rng.integers(5))]
        if name == "nb_points" and val in (1, 3):
            val = n + 1 if val == 1 else 2 * n + 1
        put(spec, name, val)
        if name == "history_size":
            spec["options"]["store_history"] = True
        supplied = dict(spec["options"])
        rec = mrun.run(spec)
        judge(n, supplied, rec, viols, info)
        for v in viols:
            v["witness"]["mechanism"] = "debug_sizes:" + name
        nt = f"debug_sizes|{name}|{val}"
        sample = {"setting": name, "value": val, "debug": True}
    elif fam == "npt_low":
        # nb_points below n+1 (also fractional) together with something that
        # ends the run during the initial sampling: still a ValueError
        n = int(rng.integers(1, 5))
        spec = base_spec(n)
        npt = [1, max(1, n - 1), n, 0.5, n + 0.5][int(rng.integers(5))]
        early = str(rng.choice(["maxfev1", "maxfev_npt", "target", "callback",
                                "none"]))
        spec["options"]["nb_points"] = npt
        spec["options"]["maxfev"] = 3 * n + 8
        if early == "maxfev1":
            spec["options"]["maxfev"] = 1
        elif early == "maxfev_npt":
            spec["options"]["maxfev"] = max(1, int(npt))
        elif early == "target":
            spec["options"]["target"] = 1e25
        elif early == "callback":
            spec["callback"] = {"conv": "pos", "stop_at": 1}
        supplied = dict(spec["options"])
        rec = mrun.run(spec)
        judge(n, supplied, rec, viols, info)
        for v in viols:
            v["witness"]["mechanism"] = "npt_low:" + early
        nt = f"npt_low|n{n}|{npt}|{early}"
        sample = {"n": n, "nb_points": npt, "early_exit": early,
                  "outcome": "ValueError" if isinstance(rec.exc, ValueError)
                  else ("ran" if rec.exc is None else type(rec.exc).__name__)}
    else:  # defaults: nothing supplied (but a large final radius to be short)
        n = 1 + case["idx"] % 3
        spec = base_spec(n)
        spec["options"] = None
        rec = mrun.run(spec)
        judge(n, {}, rec, viols, info)
        nt = f"defaults|n{n}"
        sample = {"n": n, "completed": e2e.jsonable(
            rec.run.settings.get("tr_options"))}
    counts = {"calls": info.get("calls", 0), "rejected": info.get(
        "rejected", 0), "ran": info.get("ran", 0),
        "completed_settings_checked": info.get("completed", 0),
        "late_rejection": info.get("late_rejection", 0)}
    for v in viols:
        v.setdefault("witness", {})["supplied"] = e2e.jsonable(
            sample if sample else {})
    return e2e.record(case, viols, nt=nt, tags=["fam:" + fam], counts=counts,
                      sample=sample if case["idx"] < 2 else None)
