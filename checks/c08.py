"""C08 - minimize always returns: no crash, no escaping internal exception,
NaN-safe, finite logical time."""
import numpy as np

from vlib import e2e, gen, mrun, oracles, steps, problems

ID = "C08"
LEVEL = "fault_enumeration"
RULE = ("fault sequences on valid calls: NaN/+-inf/huge at arbitrary "
        "evaluation indices, on half-spaces, per constraint component, "
        "everywhere; constant / zero / collinear data; contradictory or "
        "redundant linear constraints; all-fixed and inconsistent bounds x "
        "constraints x callbacks (incl. StopIteration at the first call); "
        "read-only input arrays; dict constraints; fun=None; tiny and "
        "anisotropic boxes; radius_final=0; plus malformed-argument calls "
        "(must raise ValueError/TypeError only).  Non-trivial = a run with an "
        "injected non-finite value or a degenerate configuration; distinct = "
        "(family, fault kinds+placement, constraint kind, outcome)")
RULE += ("  Also: user functions returning int / float32 / list values, unhashable callable callbacks, callbacks returning truthy values; success is also judged against the TRUE violation at res.x (undefined -> never successful).")
RULE += (" Initial radii of 1e60..1e150.")
RULE += (" Callback forms 'falsy' (callable, false in a boolean context) and (xk, intermediate_result=None).")
RULE += (" Options dict objects that served an earlier call of another dimension.")
ASSUMPTIONS = [
    "debug=False (debug assertions are the documented reporting channel)",
    "finite time = logical budget: loop iterations inside cobyqa code "
    "(sys.monitoring JUMP events) capped at 5000*(maxfev+maxiter+10), >=45x "
    "the largest count observed per (evaluation+iteration); the wall-clock "
    "watchdog only ever yields 'inconclusive'",
]
REQUIRED = {"eval.post": 1000, "runs_with_injected_fault": 200,
            "models_inputs_checked": 1000, "malformed_calls": 20}
MIN_NONTRIVIAL = {"quick": 40, "thorough": 200}
PLAN = [("faults", 900, 14000), ("degenerate", 500, 7000),
        ("bounds", 300, 4000), ("misc", 300, 4000), ("malformed", 60, 120), ("cross", 300, 6000),
        ("nanmix", 300, 4000)]


def cases(tier, seed):
    return e2e.case_list(PLAN, tier, seed)


def worker_init():
    steps.enable()


MALFORMED = [
    ("bounds_shape", dict(bounds=[[0, 1], [0, 1], [0, 1]])),
    ("bounds_type", dict(bounds=3.5)),
    ("bounds_len", "BoundsLen"),
    ("x0_2d", dict(x0=[[0.0, 1.0], [1.0, 2.0]])),
    ("constraint_type", dict(constraints=[3])),
    ("dict_type", dict(constraints=[{"type": "le", "fun": abs}])),
    ("dict_nofun", dict(constraints=[{"type": "eq"}])),
    ("callback_not_callable", dict(callback=3)),
    ("lin_cols", "LinCols"),
    ("nl_lb_2d", "NlLb2d"),
    ("maxfev_0", dict(options={"maxfev": 0})),
    ("maxfev_inf", dict(options={"maxfev": float("inf")})),
    ("maxiter_inf", dict(options={"maxiter": float("inf")})),
    ("npt_inf", dict(options={"nb_points": float("inf")})),
    ("filter_inf", dict(options={"filter_size": float("inf")})),
    ("history_inf", dict(options={"history_size": float("inf"),
                                  "store_history": True})),
    ("maxiter_neg", dict(options={"maxiter": -1})),
    ("npt_big", dict(options={"nb_points": 50})),
    ("radius_neg", dict(options={"radius_init": -1.0})),
    ("radius_order", dict(options={"radius_init": 1e-3, "radius_final": 1.0})),
    ("history_0", dict(options={"store_history": True, "history_size": 0})),
    ("filter_0", dict(options={"filter_size": 0})),
    ("const_range", dict(kw={"low_ratio": 2.0})),
    ("const_order", dict(kw={"low_ratio": 0.8, "high_ratio": 0.2})),
]


def run_malformed(case):
    import warnings
    from scipy.optimize import Bounds, LinearConstraint, NonlinearConstraint
    import cobyqa
    name, how = MALFORMED[case["idx"] % len(MALFORMED)]
    kw = dict(fun=lambda x: float(np.sum(np.asarray(x) ** 2)),
              x0=[0.5, 0.5])
    extra = {}
    if how == "BoundsLen":
        kw["bounds"] = Bounds([0, 0, 0], [1, 1, 1])
    elif how == "LinCols":
        kw["constraints"] = [LinearConstraint(np.ones((1, 3)), 0, 1)]
    elif how == "NlLb2d":
        kw["constraints"] = [NonlinearConstraint(lambda x: x, np.zeros((2, 2)),
                                                 np.ones(2))]
    else:
        how = dict(how)
        extra = how.pop("kw", {})
        kw.update(how)
    fun = kw.pop("fun")
    x0 = kw.pop("x0")
    outcome = "returned"
    viols = []
    with warnings.catch_warnings():
        warnings.simplefilter("ignore")
        try:
            cobyqa.minimize(fun, x0, **kw, **extra)
        except (ValueError, TypeError) as exc:
            outcome = type(exc).__name__
        except BaseException as exc:  # noqa: BLE001
            outcome = type(exc).__name__
            viols.append(oracles.V(
                "malformed_wrong_exception",
                f"malformed call '{name}' raised {type(exc).__name__}: "
                f"{str(exc)[:200]}", mechanism="malformed:" + name))
    return e2e.record(case, viols, nt=f"malformed|{name}|{outcome}",
                      tags=["fam:malformed", "outcome:" + outcome],
                      counts={"malformed_calls": 1},
                      sample={"malformed": name, "outcome": outcome}
                      if case["idx"] < 2 else None)


def make_spec(case):
    rng = e2e.rng_of(ID, case)
    fam = case["fam"]
    forms = ("nlc", "nlc", "dict_ineq", "dict_eq")
    if fam == "faults":
        spec = gen.general(rng, with_faults=True, forms=forms, fun_none=0.1,
                           maxfev=(20, 120))
        if not spec.get("faults"):
            spec["faults"] = gen.fault_plan(rng, spec) or []
        if rng.random() < 0.06:
            # an initial radius at the far end of the floating-point range:
            # the interpolation system overflows (documented outcome: a
            # result with status -2, never an escaping exception)
            spec["options"]["radius_init"] = float(10.0 ** rng.uniform(60, 150))
            spec["options"].pop("radius_final", None)
            spec["faults"] = [] if rng.random() < 0.5 else spec["faults"]
        return spec
    if fam == "nanmix":
        # short runs in which NO evaluation may be fully defined: the
        # objective is NaN on one subset of the first evaluations and a
        # constraint component on another (every sequence of defined /
        # undefined pairs over the first few evaluations)
        n = int(rng.integers(1, 3))
        x0 = rng.uniform(-1, 1, n)
        nev = int(rng.integers(1, 7))
        obj_nan = sorted(int(i) for i in range(nev) if rng.random() < 0.5)
        con_nan = sorted(int(i) for i in range(nev)
                         if (i not in obj_nan and rng.random() < 0.8)
                         or rng.random() < 0.2)
        spec = {"n": n, "x0": x0.tolist(), "con_kind": "nl",
                "obj": gen.objective(rng, n, ("quad", "abs", "lin")),
                "nl": gen.nonlinear_constraints(rng, n, x0, count=1,
                                                forms=("nlc", "dict_ineq")),
                "options": {"maxfev": nev if rng.random() < 0.7 else
                            nev + int(rng.integers(1, 20))},
                "degenerate": "nanmix"}
        spec["faults"] = []
        if obj_nan:
            spec["faults"].append({"target": "obj", "val": "nan",
                                   "when": {"idx": obj_nan}})
        if con_nan:
            spec["faults"].append({"target": "con", "j": 0, "comp": None,
                                   "val": str(rng.choice(["nan", "nan",
                                                          "inf"])),
                                   "when": {"idx": con_nan}})
        if rng.random() < 0.4:
            spec["callback"] = {"conv": str(rng.choice(["kw", "pos"]))}
        return spec
    if fam == "degenerate":
        n = int(rng.integers(1, 5))
        x0 = rng.uniform(-2, 2, n)
        kind = str(rng.choice(["const", "zero", "collinear", "contradictory",
                               "redundant", "nan_all", "huge_all",
                               "con_const"]))
        spec = {"n": n, "x0": x0.tolist(), "con_kind": "none",
                "options": {"maxfev": int(rng.integers(15, 100))},
                "degenerate": kind}
        spec["obj"] = gen.objective(rng, n, ("quad", "abs"))
        if kind == "const":
            spec["obj"] = {"kind": "const", "value": float(rng.normal())}
        elif kind == "zero":
            spec["obj"] = {"kind": "const", "value": 0.0}
        elif kind == "collinear":
            g = rng.standard_normal(n)
            spec["obj"] = {"kind": "lin", "g": g.tolist()}
            spec["lin"] = [{"A": [g.tolist(), (2 * g).tolist()],
                            "lb": [-1.0, -2.0], "ub": [1.0, 2.0]}]
            spec["con_kind"] = "lin"
        elif kind == "contradictory":
            a = rng.standard_normal(n)
            spec["lin"] = [{"A": [a.tolist()], "lb": [1.0], "ub": [np.inf]},
                           {"A": [a.tolist()], "lb": [-np.inf], "ub": [-1.0]}]
            spec["con_kind"] = "lin"
            if rng.random() < 0.5:
                spec["nl"] = [{"comps": [{"kind": "lin", "a": a.tolist(),
                                          "b": 0.0}], "form": "nlc",
                               "lb": [3.0], "ub": [np.inf]}]
                spec["con_kind"] = "both"
        elif kind == "redundant":
            a = rng.standard_normal(n)
            rows = [a.tolist()] * 3
            spec["lin"] = [{"A": rows, "lb": [0.5] * 3, "ub": [0.5] * 3}]
            spec["con_kind"] = "lin"
        elif kind == "nan_all":
            spec["faults"] = [{"target": "obj", "val": "nan",
                               "when": {"all": True}}]
        elif kind == "huge_all":
            spec["faults"] = [{"target": "obj", "val": str(rng.choice(
                ["huge", "-huge", "inf", "-inf"])), "when": {"all": True}}]
        elif kind == "con_const":
            spec["nl"] = [{"comps": [{"kind": "const", "value": str(
                rng.choice(["1.0", "-1.0", "nan", "inf", "-inf"]))}],
                "form": str(rng.choice(forms)), "lb": [-np.inf], "ub": [0.0]}]
            spec["con_kind"] = "nl"
        if rng.random() < 0.3:
            spec["callback"] = gen.callback(rng)
        return spec
    if fam == "bounds":
        n = int(rng.integers(1, 4))
        x0 = rng.uniform(-2, 2, n)
        kind = str(rng.choice(["allfixed", "inconsistent", "allfixed+scale",
                               "inconsistent+scale"]))
        if kind.startswith("allfixed"):
            lb = x0 + rng.uniform(-1, 1, n)
            ub = lb.copy()
        else:
            lb, ub = x0 - 1.0, x0 + 1.0
            i = int(rng.integers(n))
            lb[i], ub[i] = ub[i] + 1.0, lb[i] - 1.0
        con = str(rng.choice(["none", "lin", "nl", "both"]))
        spec = {"n": n, "obj": gen.objective(rng, n, ("quad", "abs")),
                "x0": x0.tolist(), "con_kind": con, "degenerate": kind,
                "bounds": {"lb": lb.tolist(), "ub": ub.tolist(),
                           "form": str(rng.choice(["Bounds", "array"])),
                           "patterns": [kind[:5]] * n},
                "options": {"maxfev": 40,
                            "scale": kind.endswith("scale")}}
        if rng.random() < 0.2:
            spec["obj"] = {"kind": "none"}
        if con in ("lin", "both"):
            spec["lin"] = gen.linear_constraints(rng, n, x0, count=1)
        if con in ("nl", "both"):
            spec["nl"] = gen.nonlinear_constraints(rng, n, x0, count=1,
                                                   forms=forms)
        cbk = str(rng.choice(["none", "plain", "stop1"]))
        if cbk != "none":
            spec["callback"] = {"conv": str(rng.choice(["kw", "pos"]))}
            if cbk == "stop1":
                spec["callback"]["stop_at"] = 1
        spec["degenerate"] += "/" + cbk
        return spec
    # misc: readonly arrays, tiny / anisotropic boxes, radius_final = 0
    kind = str(rng.choice(["readonly", "tinybox", "aniso", "rf0", "dicts",
                           "funnone", "reused_options"]))
    if kind == "tinybox":
        spec = gen.general(rng, bound_patterns=("tiny", "narrow",
                                                "nearfixed"),
                           maxfev=(20, 100), forms=forms)
    elif kind == "aniso":
        spec = gen.general(rng, bound_patterns=("tiny", "two", "narrow"),
                           maxfev=(20, 100), forms=forms)
        spec["options"]["scale"] = bool(rng.random() < 0.5)
    elif kind == "rf0":
        spec = gen.general(rng, maxfev=(40, 150), forms=forms)
        spec["options"]["radius_final"] = 0.0
        spec["options"].setdefault("radius_init", 1.0)
    elif kind == "dicts":
        spec = gen.general(rng, con=str(rng.choice(["nl", "both"])),
                           forms=("dict_ineq", "dict_eq"), maxfev=(20, 100))
    elif kind == "funnone":
        spec = gen.general(rng, con=str(rng.choice(["nl", "both", "lin"])),
                           forms=forms, fun_none=1.0, maxfev=(20, 100))
    elif kind == "reused_options":
        # the options dict object was used before for a problem of another
        # dimension (a valid call must not be refused because of that)
        spec = gen.general(rng, forms=forms, maxfev=(20, 100))
        spec["options"].pop("nb_points", None)
        spec["prelude_n"] = int(rng.choice(
            [k for k in (1, 2, 3, 5, 7) if k != spec["n"]]))
    else:
        spec = gen.general(rng, forms=forms, maxfev=(20, 100))
        spec["readonly"] = True
    spec["degenerate"] = kind
    return spec


def run_case(case):
    if case["fam"] == "malformed":
        return run_malformed(case)
    if case["fam"] == "cross":
        spec, _src = e2e.cross_spec(ID, case)
    else:
        spec = make_spec(case)
    n = spec["n"]
    o = spec.get("options") or {}
    limit = 5000 * (int(o.get("maxfev", 500 * n)) +
                    int(o.get("maxiter", 1000 * n)) + 10)
    steps.reset(limit)
    rec = mrun.run(spec, readonly=bool(spec.get("readonly")))
    used = steps.count()
    steps.reset(None)
    viols, info = oracles.o_c08(rec)
    if isinstance(rec.exc, steps.StepLimit):
        viols = [oracles.V("logical_budget_exceeded",
                           f"more than {limit} loop iterations inside cobyqa "
                           f"for maxfev={o.get('maxfev')}: no termination in "
                           f"the logical budget", mechanism="step_limit")]
    counts = e2e.base_counts(rec)
    counts["models_inputs_checked"] = sum(
        1 for e in rec.run.evals if e["ret"] is not None)
    injected = 0
    for e in rec.run.log:
        v = e.get("v")
        if v is not None and not np.all(np.isfinite(np.atleast_1d(
                np.asarray(v, dtype=float)))):
            injected += 1
        elif v is not None and np.any(np.abs(np.atleast_1d(
                np.asarray(v, dtype=float))) >= 1e100):
            injected += 1
    if injected:
        counts["runs_with_injected_fault"] = 1
        counts["nonfinite_values_returned"] = injected
    outcome = "exc:" + type(rec.exc).__name__ if rec.exc is not None else \
        "st%s" % rec.res.get("status")
    nt = None
    if injected or spec.get("degenerate"):
        fk = ",".join(sorted(set(
            f["val"] + "@" + next(iter(f["when"])) + ":" + f["target"]
            for f in spec.get("faults", []))))
        nt = "|".join([case["fam"], str(spec.get("degenerate", "-")), fk,
                       spec.get("con_kind", "?"), outcome])
    sample = None
    if case["idx"] < 2:
        sample = {"spec": e2e.spec_brief(spec), "outcome": e2e.brief(rec),
                  "nonfinite_values_returned_by_user_functions": injected,
                  "loop_iterations": used}
    nev = len(rec.run.evals) + (rec.res.get("nit", 0) if rec.res is not None
                                else 0) + 1
    return e2e.record(case, e2e.attach(viols, spec, rec), nt=nt,
                      tags=["fam:" + case["fam"], "outcome:" + outcome,
                            "deg:" + str(spec.get("degenerate", "-"))],
                      counts=counts, sample=sample,
                      maxes={"loop_iterations_per_eval_or_iter": used / nev})
