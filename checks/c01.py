"""C01 - bounds never violated anywhere the user can observe; trial points
are inside the box by construction (not silently projected)."""
import numpy as np

from vlib import e2e, gen, mrun, oracles

ID = "C01"
LEVEL = "exploration"
RULE = ("random problems over the per-variable bound-pattern lattice {free, "
        "lower, upper, two-sided, fixed, narrow(<radius), tiny, near-fixed} x "
        "x0 {inside,on,outside} x constraints {none,lin,nl,both} x scale x "
        "options x NaN/inf faults; non-trivial = a run with >=1 user-visible "
        "point within 1e-9*width of a bound or >=1 second-order-correction "
        "evaluation; distinct = (patterns, constraint kind, scale, step kinds "
        "seen)")
RULE += ("  Also: finite boxes at the far end of the floating-point range (1e150..1.7e308, scale on/off), bounds of width exactly 2 and limits exactly 0, user functions returning int / float32 / list values.")
RULE += (" Clauses B': the image of every trial point under the harness's own map lies in the user's box before projection, and the user functions are called at that image.")
ASSUMPTIONS = [
    "sampled inputs, n <= 5; exact comparison at the user boundary",
    "pre-projection excess tolerance 64*eps*max(1,|x|,|bound|) at Problem.__call__ entry",
]
REQUIRED = {"eval.post": 100, "spy.obj": 100, "boundary_events": 1000,
            "soc_evals": 1}
MIN_NONTRIVIAL = {"quick": 20, "thorough": 100}
PLAN = [("lattice", 700, 12000), ("soc", 500, 9000), ("faulty", 200, 3000),
        ("narrow", 200, 3000), ("hugebox", 120, 1500), ("cross", 300, 6000)]


def cases(tier, seed):
    return e2e.case_list(PLAN, tier, seed)


def make_spec(case):
    rng = e2e.rng_of(ID, case)
    fam = case["fam"]
    if fam == "lattice":
        return gen.general(rng, bound_patterns=gen.BOUND_PATTERNS,
                           maxfev=(30, 120))
    if fam == "faulty":
        return gen.general(rng, bound_patterns=gen.BOUND_PATTERNS,
                           with_faults=True, maxfev=(30, 100))
    if fam == "hugebox":
        spec = gen.general(rng, bound_patterns=("huge", "two", "huge",
                                                "lower"),
                           maxfev=(20, 60), opt_allow=("nb_points",))
        spec["options"]["scale"] = bool(rng.random() < 0.7)
        return spec
    if fam == "narrow":
        spec = gen.general(rng, bound_patterns=("narrow", "tiny", "two",
                                                "nearfixed"),
                           maxfev=(30, 100))
        if rng.random() < 0.5:
            # widths over ten decades under scale=True
            spec["options"]["scale"] = True
        return spec
    # soc: curved feasible set hugging a face of the box
    n = int(rng.integers(2, 5))
    c = rng.uniform(-1, 1, n)
    r = float(rng.uniform(0.8, 2.0))
    lb = c - r * rng.uniform(0.2, 1.1, n)
    ub = c + r * rng.uniform(0.2, 1.1, n)
    for i in range(n):
        if rng.random() < 0.3:
            lb[i] = -np.inf
        elif rng.random() < 0.3:
            ub[i] = np.inf
    x0 = c + rng.uniform(-1, 1, n) * r
    comps = [{"kind": "ball", "c": c.tolist(), "r": r}]
    if rng.random() < 0.5:
        comps.append(gen.nl_component(rng, n, ("quad", "sin")))
    kind = str(rng.choice(["upper", "eq"]))
    m = len(comps)
    spec = {"n": n, "obj": gen.objective(rng, n, ("quad", "lin", "sinq")),
            "x0": x0.tolist(),
            "bounds": {"lb": lb.tolist(), "ub": ub.tolist(), "form": "Bounds",
                       "patterns": ["two"] * n},
            "nl": [{"comps": comps, "form": "nlc",
                    "lb": ([0.0] * m if kind == "eq" else [-np.inf] * m),
                    "ub": [0.0] * m}],
            "options": {"maxfev": int(rng.integers(60, 200)),
                        "scale": bool(rng.random() < 0.3)},
            "con_kind": "nl"}
    return spec


def run_case(case):
    if case["fam"] == "cross":
        spec, _src = e2e.cross_spec(ID, case)
    else:
        spec = make_spec(case)
    rec = mrun.run(spec)
    viols, info = oracles.o_c01(rec)
    kinds = info.get("kinds", [])
    soc = sum(1 for e in rec.run.evals if e["kind"] == "soc")
    counts = e2e.base_counts(rec)
    counts["boundary_events"] = info.get("boundary_events", 0)
    counts["soc_evals"] = soc
    counts["near_bound_events"] = info.get("near_bound", 0)
    nt = None
    if info.get("near_bound", 0) > 0 or soc > 0:
        nt = gen.spec_signature(spec) + "|" + ",".join(kinds)
    sample = None
    if case["idx"] < 2:
        sample = {"spec": e2e.spec_brief(spec), "outcome": e2e.brief(rec),
                  "near_bound_events": info.get("near_bound"),
                  "max_excess_over_tol": info.get("max_excess")}
    return e2e.record(case, e2e.attach(viols, spec, rec), nt=nt,
                      tags=["kind:" + k for k in kinds] +
                      ["fam:" + case["fam"]],
                      counts=counts, sample=sample,
                      maxes={"excess_over_tol": info.get("max_excess", 0.0)},
                      skipped="skipped" in info)
