"""C16 - subproblem solvers never make things worse; Cauchy decrease."""
from vlib import e2e, subdrive

ID = "C16"
LEVEL = "exploration"
RULE = ("same two drivers as C15 (hostile direct fuzz through icontract "
        "postconditions + every subproblem posed in real runs); conditions: "
        "tangential steps do not increase the model, normal steps do not "
        "increase the linearised violation, geometry steps do not decrease "
        "|q| (const=0 is the deciding domain; const!=0 is a separately "
        "labelled sub-workload), the bound-constrained tangential step "
        "reaches the projected-gradient Cauchy decrease (harness reference "
        "refs/cauchy.py), the Cauchy geometry step strictly increases |q| "
        "whenever a component with non-zero gradient has room in the box.  "
        "Non-trivial / distinct as in C15")
RULE += ("  Also: for linear models (H = 0) the reference is the end point of the whole projected-gradient PATH (generalised Cauchy point); the absolute stopping floor after a restart on a bound is classified with KF-C16.")
RULE += (" Exact zero entries in the spider directions.")
RULE += (' Family near_dependent_eq: nearly dependent equality rows for the normal solver.')
ASSUMPTIONS = [
    "model increase / violation increase / |q| decrease judged relative to "
    "the magnitude of the terms: held <= 1e-9, violation > 1e-6",
    "Cauchy reference = straight-line projected-gradient step up to the "
    "first bound, the ball or the minimiser along the line",
]
REQUIRED = {"subproblems": 20000, "postconditions": 20000,
            "solver_posed_subproblems": 2000, "tag:cauchy_nontrivial": 2000,
            "tag:improving_direction_exists": 1000,
            "tag:normal_decreased": 1000}
MIN_NONTRIVIAL = {"quick": 200, "thorough": 1000}
PLAN = [("fuzz", 64, 1600), ("real", 300, 4000), ("ulp_ties", 16, 200),
        ("repotests", 1, 1)]
PROP = "C16"


def cases(tier, seed):
    return e2e.case_list(PLAN, tier, seed)


worker_init = subdrive.worker_init


def run_case(case):
    if case["fam"] == "fuzz":
        return subdrive.fuzz_case(case, PROP)
    if case["fam"] == "ulp_ties":
        return subdrive.ulp_case(case, PROP)
    if case["fam"] == "repotests":
        from vlib import repotests
        viols, counts = repotests.run(PROP)
        return e2e.record(case, viols, tags=["fam:repotests"], counts=counts,
                          nt="repotests")
    return subdrive.real_case(case, PROP)
