"""C20 - the callback sees, once per evaluation, the point minimize would
return (rerun-with-stop)."""
import math

import numpy as np

from vlib import e2e, gen, mrun, oracles

ID = "C20"
LEVEL = "exploration"
RULE = ("scaled / fixed-variable / linearly and nonlinearly constrained "
        "problems with callbacks given as functions, lambdas, callable "
        "objects, partials, in both conventions; the callback log is judged "
        "against the evaluation log (once per evaluation, order, convention, "
        "user space, fresh array, point optimal for the history so far under "
        "the penalty in force); then for sampled k the same problem is rerun "
        "with a callback raising StopIteration at call k and must return "
        "bitwise the (x, fun) call k received, nfev=k, status 3; an "
        "array-overwriting callback must leave logs and result unchanged.  "
        "Non-trivial = a sampled k at which the best point changed or is not "
        "the last evaluated point; distinct = (convention, callable kind, "
        "constraint kind, scale, k bucket)")
RULE += ("  Also: scaled problems whose solution sits on the bounds; unhashable callable callbacks.")
RULE += (" Problems rich in second-order corrections.")
RULE += (' Undefined / infinite / beyond-barrier objective values around x0: the callback is shown the raw values of the best point.')
RULE += (" Callable callbacks that are false in a boolean context; signatures (xk, intermediate_result=None).")
ASSUMPTIONS = [
    "solver deterministic (C11): reruns reproduce the base run up to call k",
    "optimality judged with the C03 reference model and the harness' true "
    "violations (knife-edge cases counted ambiguous)",
]
REQUIRED = {"spy.cb": 1000, "reruns": 100, "overwrite_reruns": 20}
MIN_NONTRIVIAL = {"quick": 20, "thorough": 100}
PLAN = [("base", 450, 5000)]
KS = {"quick": 3, "thorough": 8}


def cases(tier, seed):
    out = e2e.case_list(PLAN, tier, seed)
    for c in out:
        c["nk"] = KS[tier if tier in KS else "quick"]
    return out


def run_case(case):
    rng = e2e.rng_of(ID, case)
    spec = gen.general(rng, maxfev=(25, 90), with_callback=True,
                       opt_allow=("scale", "nb_points", "radius", "filter"),
                       forms=("nlc", "dict_ineq"), fun_none=0.1,
                       bound_patterns=("free", "lower", "upper", "two",
                                       "fixed", "narrow"))
    if case["idx"] % 5 == 0:
        # scaled problems whose solution sits on the bounds (the points
        # handed to the callback are images of +-1 under the scaling map)
        spec = gen.general(rng, maxfev=(25, 90), with_callback=True,
                           opt_allow=("nb_points", "radius"),
                           forms=("nlc",), con=str(rng.choice(
                               ["none", "none", "lin", "nl"])),
                           obj_kinds=("lin", "quad", "lin"),
                           bound_patterns=("two", "narrow", "two"),
                           x0_where=str(rng.choice(["on", "inside"])))
        spec["options"]["scale"] = True
    if case["idx"] % 5 == 1:
        # curved feasible set hugging a face of the box: runs rich in
        # second-order-correction steps (the point handed to the callback
        # may be a trial point that was corrected afterwards)
        from checks import c01
        spec = c01.make_spec({"id": case["id"], "fam": "soc",
                              "idx": case["idx"], "seed": case["seed"]})
    if case["idx"] % 5 == 2 and spec["obj"]["kind"] != "none":
        # undefined / infinite / beyond-barrier objective values around x0:
        # what the callback is shown (and what a stop returns) are the RAW
        # values of the best point
        spec["faults"] = [{"target": "obj", "val": str(rng.choice(
            ["nan", "inf", "huge", "-huge"])),
            "when": {"idx": sorted(set(int(v) for v in rng.integers(
                0, 8, int(rng.integers(1, 5)))))}}]
    cb = {"conv": str(rng.choice(["kw", "pos"])),
          "form": str(rng.choice(["def", "lambda", "object", "partial",
                                  "unhashable", "falsy"]))}
    if cb["conv"] == "pos" and rng.random() < 0.25:
        cb["form"] = str(rng.choice(["other_name", "mixed_sig"]))
    spec["callback"] = cb
    base = mrun.run(spec)
    counts = e2e.base_counts(base)
    tags = ["conv:" + cb["conv"], "form:" + cb["form"]]
    table = oracles.eval_table(base)
    viols, info = oracles.o_c20(base, table)
    nt = []
    cbs = base.cb_events()
    if base.res is not None and cbs and not viols:
        ncb = len(cbs)
        # indices where the best point changed / is not the last evaluated
        interesting = []
        prev = None
        for r in table:
            if r["cb"]:
                xb = r["cb"][0]["x"].tobytes()
                if (prev is not None and xb != prev) or (
                        r["x"] is not None and xb != r["x"].tobytes()):
                    interesting.append(r["i"] + 1)
                prev = xb
        ks = set()
        pool = interesting or list(range(1, ncb + 1))
        for _ in range(case.get("nk", 3)):
            ks.add(int(pool[int(rng.integers(len(pool)))]))
        ks.add(int(rng.integers(1, ncb + 1)))
        for k in sorted(ks):
            spec2 = dict(spec)
            spec2["callback"] = dict(cb, stop_at=k)
            rr = mrun.run(spec2)
            counts["reruns"] = counts.get("reruns", 0) + 1
            want = cbs[k - 1]
            if rr.exc is not None or rr.res is None:
                viols.append(oracles.V(
                    "rerun_exception",
                    f"rerun with StopIteration at call {k} raised "
                    f"{type(rr.exc).__name__}: {str(rr.exc)[:150]}", k=k,
                    mechanism="exc:" + type(rr.exc).__name__))
                continue
            res = rr.res
            pre = [e["x"].tobytes() for e in rr.run.evals]
            if pre != [e["x"].tobytes() for e in base.run.evals[:len(pre)]]:
                tags.append("rerun:diverged")
                continue
            bad = []
            if res.status != 3:
                bad.append(f"status={res.status}")
            if int(res.nfev) != k:
                bad.append(f"nfev={res.nfev}")
            if np.asarray(res.x, float).tobytes() != want["x"].tobytes():
                bad.append("x differs from the point call k received")
            if cb["conv"] == "kw" and not oracles.feq(res.fun, want["fun"]):
                bad.append(f"fun={res.fun} vs callback fun={want['fun']}")
            if bad:
                viols.append(oracles.V(
                    "rerun_with_stop",
                    f"StopIteration at call {k}: " + "; ".join(bad), k=k,
                    mechanism="degenerate_early_exit" if (
                        rr.run.tr is None and res.status in (2, -1)
                        and bad == [f"status={res.status}"]) else
                    ("fun_none" if spec["obj"]["kind"] == "none"
                     else "fun") + ":" + ",".join(
                         b.split("=")[0] for b in bad)))
            if k in interesting:
                nt.append("|".join([cb["conv"], cb["form"],
                                    spec.get("con_kind", "?"),
                                    "s%d" % bool(spec["options"].get("scale")),
                                    "k%d" % min(k // 10, 5)]))
        # overwrite variant
        if rng.random() < 0.35:
            spec3 = dict(spec)
            spec3["callback"] = dict(cb, overwrite=True)
            ro = mrun.run(spec3)
            counts["overwrite_reruns"] = counts.get("overwrite_reruns", 0) + 1
            same = (ro.res is not None and
                    [e["x"].tobytes() for e in ro.run.evals] ==
                    [e["x"].tobytes() for e in base.run.evals] and
                    [e["x"].tobytes() for e in ro.cb_events()] ==
                    [e["x"].tobytes() for e in cbs] and
                    np.asarray(ro.res.x).tobytes() ==
                    np.asarray(base.res.x).tobytes() and
                    oracles.feq(ro.res.fun, base.res.fun) and
                    ro.res.nfev == base.res.nfev and
                    ro.res.status == base.res.status)
            if not same:
                viols.append(oracles.V(
                    "overwrite_changes_run",
                    "a callback that overwrites the array it receives "
                    "changed the evaluation sequence or the result",
                    mechanism="overwrite"))
    counts["best_changed"] = info.get("best_changed", 0)
    counts["best_not_last"] = info.get("best_not_last", 0)
    sample = None
    if case["idx"] < 2:
        sample = {"spec": e2e.spec_brief(spec), "outcome": e2e.brief(base),
                  "callback_calls": info.get("calls"),
                  "best_changed": info.get("best_changed"),
                  "best_not_last": info.get("best_not_last")}
    return e2e.record(case, e2e.attach(viols, spec, base), nt=nt or None,
                      tags=tags, counts=counts, sample=sample,
                      skipped="skipped" in info)
