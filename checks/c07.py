"""C07 - status, message and success describe what actually happened."""
import math
import numpy as np

from vlib import e2e, gen, mrun, oracles

ID = "C07"
LEVEL = "exploration"
RULE = ("every way a run can end: during the initial sampling (target met at "
        "point k, feasibility at point k, callback stop at call k, maxfev < "
        "nb_points, non-finite data) and in the main loop (radius, target, "
        "feasibility, callback, maxfev, maxiter), all-fixed and inconsistent "
        "bounds with/without constraints and callbacks; non-trivial/distinct "
        "= (status, phase in which the run ended, trigger kind); all statuses "
        "except -2 must be observed or the check is inconclusive")
RULE += ("  Also: undefined values at the first evaluation(s) only; bounds that fix one variable at a huge value while the others have a narrow real range, huge finite boxes (status 2 only if every variable is fixed to rounding of its own magnitude); requests placed by replay ((target, feasibility_tol) = (f_k, v_k), small filters, trial points followed by a correction) judged by the status oracle; targets at / beyond the extreme barrier.")
RULE += (" Initial radii of 1e75..1e150 (status -2 reached inside the main loop).")
RULE += (" Family budget_before: the budget ends right before a correction / geometry / trust-region evaluation (placed by replay) with a loose tolerance; user functions raising StopIteration of their own (never status 3).")
ASSUMPTIONS = [
    "ground truth from the harness spies (callback log, evaluation log) and "
    "from the final TrustRegion state seen by the _build_result tap",
    "message compared modulo a final period",
]
REQUIRED = {"eval.post": 1000, "checked_results": 300}
MIN_NONTRIVIAL = {"quick": 12, "thorough": 20}
PLAN = [("init", 700, 9000), ("loop", 700, 9000), ("degenerate", 300, 3000),
        ("placed", 900, 5000), ("cross", 300, 6000),
        ("budget_before", 120, 1500)]
NEED_STATUS = (0, 1, 2, 3, 4, 5, 6, -1)


def cases(tier, seed):
    return e2e.case_list(PLAN, tier, seed)


def make_spec(case):
    rng = e2e.rng_of(ID, case)
    fam = case["fam"]
    if fam == "degenerate":
        n = int(rng.integers(1, 4))
        x0 = rng.uniform(-2, 2, n)
        kind = str(rng.choice(["allfixed", "inconsistent", "allfixed+scale",
                               "nearfixed"], p=[0.3, 0.3, 0.2, 0.2]))
        if kind == "nearfixed":
            # one variable really fixed at a huge value, the others with a
            # narrow but real range (width 1e-9..1e-2): NOT all fixed
            n = int(rng.integers(2, 4))
            x0 = rng.uniform(-2, 2, n)
            lb = x0 - 10.0 ** rng.uniform(-9, -2, n) * rng.random(n)
            ub = lb + 10.0 ** rng.uniform(-9, -2, n)
            x0 = np.clip(x0, lb, ub)
            i = int(rng.integers(n))
            lb[i] = ub[i] = x0[i] = float(rng.choice([-1.0, 1.0])) * \
                10.0 ** (rng.uniform(3, 13) if rng.random() < 0.7
                         else rng.uniform(150, 300))
            if rng.random() < 0.25:
                # no variable fixed at all: a huge but finite box
                big = 10.0 ** rng.uniform(150, 305, n)
                lb, ub = -big, big * rng.uniform(0.5, 1.0, n)
                x0 = rng.uniform(-2, 2, n)
        elif kind.startswith("allfixed"):
            lb = x0 + rng.uniform(-1, 1, n)
            ub = lb.copy()
        else:
            lb = x0 - 1.0
            ub = x0 + 1.0
            i = int(rng.integers(n))
            lb[i], ub[i] = ub[i] + 1.0, lb[i] - 1.0
        con = str(rng.choice(["none", "lin", "nl", "both"]))
        spec = {"n": n, "obj": gen.objective(rng, n, ("quad", "abs")),
                "x0": x0.tolist(), "con_kind": con,
                "bounds": {"lb": lb.tolist(), "ub": ub.tolist(),
                           "form": "Bounds",
                           "patterns": [kind[:5]] * n},
                "options": {"maxfev": 50}}
        if kind.endswith("scale"):
            spec["options"]["scale"] = True
        if con in ("lin", "both"):
            spec["lin"] = gen.linear_constraints(rng, n, x0, count=1)
        if con in ("nl", "both"):
            spec["nl"] = gen.nonlinear_constraints(rng, n, x0, count=1)
        cbk = str(rng.choice(["none", "plain", "stop1"]))
        if cbk != "none":
            spec["callback"] = {"conv": str(rng.choice(["kw", "pos"]))}
            if cbk == "stop1":
                spec["callback"]["stop_at"] = 1
        spec["trigger"] = kind + "/" + cbk
        return spec
    con = str(rng.choice(["none", "lin", "nl", "both"]))
    spec = gen.general(rng, con=con, maxfev=(40, 150),
                       opt_allow=("scale", "nb_points", "radius"),
                       with_callback=False,
                       bound_patterns=("free", "lower", "upper", "two",
                                       "narrow"))
    n = spec["n"]
    o = spec["options"]
    npt = o.get("nb_points", 2 * n + 1)
    if fam == "init":
        trig = str(rng.choice(["target", "feas", "callback", "maxfev",
                               "nonfinite"]))
        k = int(rng.integers(1, npt + 1))
        if trig == "target":
            o["target"] = 1e30 if rng.random() < 0.6 else float(
                rng.uniform(-1, 5))
            if rng.random() < 0.4:
                o["feasibility_tol"] = 0.0
        elif trig == "feas":
            spec["obj"] = {"kind": "none"}
            if con == "none":
                spec["lin"] = gen.linear_constraints(
                    rng, n, np.asarray(spec["x0"]), count=1,
                    kinds=("upper", "lower", "two"))
                spec["con_kind"] = "lin"
        elif trig == "callback":
            spec["callback"] = {"conv": str(rng.choice(["kw", "pos"])),
                                "stop_at": k}
        elif trig == "maxfev":
            o["maxfev"] = int(rng.integers(1, npt + 1))
        elif rng.random() < 0.5:
            spec["faults"] = [{"target": "obj", "val": str(rng.choice(
                ["nan", "inf", "-inf"])), "when": {"all": True}}]
            if rng.random() < 0.3:
                # target at / beyond the extreme barrier
                o["target"] = float(rng.choice([math.inf, 1e35]))
        else:
            # undefined values at the FIRST evaluation(s) only, then a
            # request that an ordinary later point satisfies
            first = [0] if rng.random() < 0.6 else [0, 1]
            tgt = "obj" if (con in ("none", "lin") or rng.random() < 0.5) \
                else "con"
            f = {"target": tgt, "val": str(rng.choice(["nan", "nan", "inf"])),
                 "when": {"idx": first}}
            if tgt == "con":
                f["j"] = 0
                f["comp"] = None
            spec["faults"] = [f]
            if rng.random() < 0.7:
                o["target"] = 1e30 if rng.random() < 0.6 else float(
                    rng.uniform(0, 50))
            else:
                spec["obj"] = {"kind": "none"}
                if con in ("none",):
                    spec["lin"] = gen.linear_constraints(
                        rng, n, np.asarray(spec["x0"]), count=1,
                        kinds=("upper", "lower", "two"))
                    spec["con_kind"] = "lin"
                if f["target"] == "obj":
                    spec["faults"] = []
            trig = "nonfinite_first"
        spec["trigger"] = "init/" + trig
    else:
        trig = str(rng.choice(["radius", "target", "feas", "callback",
                               "maxfev", "maxiter", "hugeradius"],
                              p=[0.16, 0.16, 0.16, 0.16, 0.16, 0.16, 0.04]))
        if trig == "hugeradius":
            # the interpolation system overflows inside the main loop: a
            # linear algebra error (status -2) is never a success
            o["radius_init"] = float(10.0 ** rng.uniform(75, 150))
            o.pop("radius_final", None)
            o["maxfev"] = 200
            if spec.get("bounds"):
                spec.pop("bounds")
                spec["x0_where"] = None
        elif trig == "radius":
            o["radius_final"] = o.get("radius_init", 1.0) * float(
                10.0 ** rng.uniform(-3, -0.5))
            o["maxfev"] = 600
        elif trig == "target":
            o["target"] = float(rng.uniform(-1, 5))
            u = rng.random()
            if u < 0.3:
                o["feasibility_tol"] = 0.0
            elif u < 0.7:
                # a small filter and a loose tolerance: the point that meets
                # the request may be the least feasible retained point
                o["filter_size"] = int(rng.integers(1, 4))
                o["feasibility_tol"] = float(rng.choice([1e-2, 1e-1, 0.5]))
        elif trig == "feas":
            spec["obj"] = {"kind": "none"}
            if con == "none":
                spec["nl"] = gen.nonlinear_constraints(
                    rng, n, np.asarray(spec["x0"]), count=1)
                spec["con_kind"] = "nl"
        elif trig == "callback":
            spec["callback"] = {"conv": str(rng.choice(["kw", "pos"])),
                                "stop_at": int(rng.integers(npt + 1,
                                                            npt + 40))}
        elif trig == "maxfev":
            o["maxfev"] = int(rng.integers(npt + 1, npt + 30))
            if rng.random() < 0.5:
                # problems rich in second-order corrections with a loose
                # tolerance: the budget often ends at a correction, with
                # 'feasible' points on record (exhausted budget = no success)
                from checks import c01
                spec = c01.make_spec({"id": case["id"], "fam": "soc",
                                      "idx": case["idx"],
                                      "seed": case["seed"]})
                o = spec["options"]
                o["maxfev"] = int(rng.integers(6, 60))
                o["feasibility_tol"] = float(rng.choice([0.5, 10.0, 1e3]))
                trig = "maxfev_soc"
        else:
            o["maxiter"] = int(rng.integers(1, 15))
            o["maxfev"] = 500
        if trig in ("radius", "maxiter", "callback") and rng.random() < 0.25 \
                and spec["obj"]["kind"] != "none":
            # a user function fails with StopIteration of its own (no
            # callback request was made: never status 3)
            tgt = "con" if spec.get("nl") and rng.random() < 0.5 else "obj"
            f = {"target": tgt, "val": "raise_stop",
                 "when": {"idx": [int(rng.integers(0, npt + 25))]}}
            if tgt == "con":
                f["j"] = 0
                f["comp"] = None
            spec["faults"] = [f]
            trig += "+user_stopiteration"
        spec["trigger"] = "loop/" + trig
    return spec


def run_case(case):
    if case["fam"] == "placed":
        # requests placed by replay on a chosen evaluation (the C09 driver:
        # (target, feasibility_tol) = (f_k, v_k), small filters, callback
        # stops, trial points followed by a correction), judged by the status
        # oracle of this check
        from checks import c09
        sub = {"id": case["id"], "fam": ["target", "multi", "soc"][
            case["idx"] % 3], "idx": case["idx"], "seed": case["seed"]}
        r = c09.run_case(sub, judge="c07")
        r["tags"] = ["fam:placed"] + [t for t in r["tags"]
                                      if not t.startswith("fam:")]
        if r.get("nt"):
            r["nt"] = "placed|" + str(r["nt"])
        r["counts"]["checked_results"] = 1
        return r
    if case["fam"] == "budget_before":
        # the evaluation budget ends right BEFORE an evaluation of a chosen
        # kind (second-order correction, geometry, trust-region), placed by
        # replay on a problem rich in corrections with a loose tolerance, so
        # that 'feasible' points are on record: an exhausted budget is
        # status 5 and never a success
        from checks import c01
        rng = e2e.rng_of(ID, case)
        spec = c01.make_spec({"id": case["id"], "fam": "soc",
                              "idx": case["idx"], "seed": case["seed"]})
        spec["options"]["feasibility_tol"] = float(rng.choice(
            [0.5, 10.0, 1e3]))
        spec["options"]["maxfev"] = 80
        dry = mrun.run(spec)
        table = oracles.eval_table(dry) if dry.res is not None else []
        want = str(rng.choice(["soc", "soc", "geo", "tr"]))
        ks = [r["i"] for r in table if r["kind"] == want and r["i"] >= 2]
        if not ks:
            return e2e.record(case, [], tags=["fam:budget_before",
                                              "dry:no_candidate"],
                              counts=e2e.base_counts(dry), skipped=True)
        spec = dict(spec)
        spec["options"] = dict(spec["options"])
        spec["options"]["maxfev"] = int(ks[int(rng.integers(len(ks)))])
        spec["trigger"] = "budget_before/" + want
    elif case["fam"] == "cross":
        spec, _src = e2e.cross_spec(ID, case)
        spec.setdefault("trigger", "cross/" + _src)
    else:
        spec = make_spec(case)
    rec = mrun.run(spec)
    viols, info = oracles.o_c07(rec)
    counts = e2e.base_counts(rec)
    tags = ["fam:" + case["fam"], "trigger:" + spec.get("trigger", "?")]
    nt = None
    if rec.res is not None:
        counts["checked_results"] = 1
        tags.append("status:%s" % rec.res.status)
        nt = f"st{rec.res.status}|{info.get('phase')}|{spec.get('trigger')}"
    else:
        tags.append("exception:" + type(rec.exc).__name__)
    sample = None
    if case["idx"] < 2:
        sample = {"spec": e2e.spec_brief(spec), "outcome": e2e.brief(rec),
                  "phase": info.get("phase")}
    return e2e.record(case, e2e.attach(viols, spec, rec), nt=nt, tags=tags,
                      counts=counts, sample=sample)


def finish(agg, tier, seed):
    seen = sorted(int(t.split(":")[1]) for t in agg["tags"]
                  if t.startswith("status:"))
    missing = [s for s in NEED_STATUS if s not in seen]
    out = {"statuses_seen": seen}
    if missing:
        out["inconclusive"] = [f"statuses never observed: {missing}"]
    return out
