#!/bin/bash
# MANIFEST.setup_cmd: offline install of the contract/validation libraries
# beside the repository's interpreter (into the git-ignored /verif/.deps).
cd "$(dirname "$0")"
export PIP_NO_INDEX=1
PYTHONPATH="$PWD" /venv/bin/python -c "from vlib import boot; boot.ensure_deps(); import icontract, jsonschema; print('deps ok', icontract.__version__)"
