"""C12 monitor: after every build / update / shift / reset each quadratic
model reproduces the recorded value at every interpolation point within a
*running* first-principles bound kept by the monitor, and the recorded values
are the (barrier-clipped) values the evaluation tap saw for those points.

The monitor listens to the Models taps; it only reads solver state and calls
pure model evaluations on it."""
import numpy as np

from .oracles import V, feq

EPS = np.finfo(float).eps
C = 1000.0          # calibrated constant of the bound (DESIGN 3.6)
GRAY = 1.0          # error / B above this: gray
BAD = 1000.0        # error / B above this: violation
MEANINGLESS = 1e-6  # bound larger than this fraction of the values: skipped


def sysinfo(xpt):
    n, npt = xpt.shape
    scale = np.max(np.linalg.norm(xpt, axis=0), initial=EPS)
    xs = xpt / scale
    a = np.zeros((npt + n + 1, npt + n + 1))
    a[:npt, :npt] = 0.5 * (xs.T @ xs) ** 2
    a[:npt, npt] = 1.0
    a[:npt, npt + 1:] = xs.T
    a[npt, :npt] = 1.0
    a[npt + 1:, :npt] = xs
    if not np.all(np.isfinite(a)):
        return scale, None, None, None
    ev, vec = np.linalg.eigh(a)
    big = np.abs(ev) > EPS
    return scale, ev, vec, big


def solver_sysinfo(itp):
    """(scale, eigenvalues, eigenvectors, kept) of the scaled KKT matrix as
    the SOLVER decomposed it (read from its own per-set cache, which it
    fills on every solve), so that the monitor knows exactly which
    eigenvalues were truncated and how small the smallest kept one is.
    Falls back to the monitor's own decomposition."""
    cache = getattr(itp, "_lhs_cache", None)
    scale = np.max(np.linalg.norm(itp.xpt, axis=0), initial=EPS)
    if cache is not None and np.array_equal(cache.get("xpt"), itp.xpt):
        ev, vec = cache["eigh"]
        ev = np.array(ev, dtype=float, copy=True)
        return scale, ev, np.array(vec, copy=True), np.abs(ev) > EPS
    scale, ev, vec, big = sysinfo(itp.xpt)
    if ev is None:
        return scale, None, None, None
    # unknown truncation decision near the threshold: be conservative
    kept = np.abs(ev) > 100.0 * EPS
    return scale, ev, vec, kept


def cond_kept(ev, kept):
    aev = np.abs(ev)
    if not np.any(kept):
        return np.inf
    return aev.max() / aev[kept].min()


def cond_of(ev, big):
    """Conditioning that governs the solver's solve.  Eigenvalues within a
    factor 100 of the solver's truncation threshold (EPS) may or may not be
    truncated by its own eigendecomposition (the estimates differ between
    LAPACK drivers at rounding level): then the worst kept eigenvalue can be
    as small as EPS and the system carries (almost) no claim."""
    aev = np.abs(ev)
    if np.min(aev) > 100.0 * EPS:
        return aev.max() / aev.min()
    return aev.max() / EPS


def mag(q, itp, x):
    d = x - itp.x_base
    return (abs(q._const) + np.abs(q._grad) @ np.abs(d)
            + 0.5 * (np.abs(q._i_hess) @ (itp.xpt.T @ d) ** 2
                     + np.abs(d) @ np.abs(q._e_hess) @ np.abs(d)))


class InterpMonitor:
    def __init__(self, check_values=True):
        self.tol = {}
        self.viols = []
        self.judged = 0
        self.skipped = 0
        self.gray = 0
        self.worst = 0.0
        self.events = 0
        self.ill = 0
        self.recovered = 0
        self.value_checks = 0
        self.pre = None
        self.check_values = check_values
        self.was_skipping = False
        self.shift_mag = {}
        self.polluted = 0

    # ---------------------------------------------------------------- utils
    def models_of(self, m):
        out = [("fun", m._fun, m.fun_val)]
        out += [("cub%d" % i, q, m.cub_val[:, i])
                for i, q in enumerate(m._cub)]
        out += [("ceq%d" % i, q, m.ceq_val[:, i])
                for i, q in enumerate(m._ceq)]
        return out

    def fresh(self, m):
        itp = m.interpolation
        scale, ev, vec, big = solver_sysinfo(itp)
        npt = itp.npt
        nn = npt + itp.n + 1
        self.tol = {}
        for name, q, vals in self.models_of(m):
            if ev is None or not np.all(np.isfinite(vals)):
                self.tol[name] = np.inf
                continue
            cond = cond_kept(ev, big)
            t = nn * EPS * cond * np.linalg.norm(vals)
            if not big.all():
                b = np.zeros(nn)
                b[:npt] = vals / scale ** 2
                rn = b - vec[:, big] @ (vec[:, big].T @ b)
                t += np.max(np.abs(rn[:npt])) * scale ** 2 \
                    + nn * EPS * cond * np.linalg.norm(vals)
            self.tol[name] = t

    def check(self, m, where):
        self.events += 1
        itp = m.interpolation
        any_skipped = False
        for name, q, vals in self.models_of(m):
            vs = max(1.0, float(np.max(np.abs(vals))))
            for k in range(itp.npt):
                p = itp.point(k)
                e = abs(q(p, itp) - vals[k])
                # the point is stored as x_base + xpt: its displacement from
                # the base is only known to eps*|x_base| (tiny sets far from
                # the origin), which the model amplifies by its gradient
                dx = 4 * EPS * np.maximum(np.abs(itp.x_base), np.abs(p))
                gsens = float(np.abs(q.grad(p, itp)) @ dx)
                # ... and, on sets that have collapsed to the resolution of
                # x_base (x_base + xpt == x_base), by its curvature
                habs = np.abs(q._e_hess) + (np.abs(itp.xpt) * np.abs(
                    q._i_hess)) @ np.abs(itp.xpt).T
                gsens += float(dx @ habs @ dx)
                b = C * (self.tol.get(name, np.inf)
                         + 8 * EPS * mag(q, itp, p) + gsens)
                if not np.isfinite(b) or b > MEANINGLESS * vs:
                    self.skipped += 1
                    any_skipped = True
                    continue
                self.judged += 1
                r = float(e / b) if b > 0 else (0.0 if e == 0 else np.inf)
                self.worst = max(self.worst, r)
                if not (r <= BAD):
                    if len(self.viols) < 3:
                        kind = "objective" if name == "fun" else "constraint"
                        self.viols.append(V(
                            "interpolation_" + kind,
                            f"after {where}: model '{name}' gives "
                            f"{float(q(p, itp))!r} at interpolation point {k} "
                            f"but the recorded value is {float(vals[k])!r} "
                            f"(error {e:.3g}, bound {b:.3g})",
                            mechanism=kind + "_model_after_" +
                            where.split(" ")[0], model=name, k=k,
                            error=float(e), bound=float(b)))
                    return
                elif r > GRAY:
                    self.gray += 1
        if self.was_skipping and not any_skipped:
            self.recovered += 1
        self.was_skipping = any_skipped

    # ----------------------------------------------------------------- hooks
    def on_init(self, run, models, pb=None):
        self.fresh(models)
        self.check(models, "build")
        if self.check_values and run is not None:
            npt = models.npt
            evs = [e for e in run.evals if e["ret"] is not None][-npt:]
            if len(evs) == npt:
                for k, e in enumerate(evs):
                    self.value_checks += 1
                    ok = (feq(models.fun_val[k], e["ret"][0])
                          and np.array_equal(models.cub_val[k], e["ret"][1])
                          and np.array_equal(models.ceq_val[k], e["ret"][2])
                          and np.array_equal(models.interpolation.point(k),
                                             e["x"]))
                    if not ok and len(self.viols) < 3:
                        self.viols.append(V(
                            "recorded_value_initial",
                            f"initial interpolation point {k}: recorded "
                            f"values / point differ from what evaluation "
                            f"{e['i']} returned", mechanism="recorded_init"))

    def on_update_pre(self, run, models, args):
        k_new, x_new, fun_val, cub_val, ceq_val = args[:5]
        d = {"fun": float(fun_val - models.fun(x_new))}
        cm = models.cub(x_new)
        em = models.ceq(x_new)
        for i in range(models.m_nonlinear_ub):
            d["cub%d" % i] = float(cub_val[i] - cm[i])
        for i in range(models.m_nonlinear_eq):
            d["ceq%d" % i] = float(ceq_val[i] - em[i])
        self.pre = {"k": k_new, "d": d, "x": np.array(x_new, copy=True),
                    "vals": (fun_val, np.array(cub_val, copy=True),
                             np.array(ceq_val, copy=True))}
        if self.check_values and run is not None and run.evals:
            e = run.evals[-1]
            self.value_checks += 1
            if e["ret"] is not None:
                ok = (feq(fun_val, e["ret"][0])
                      and np.array_equal(cub_val, e["ret"][1])
                      and np.array_equal(ceq_val, e["ret"][2])
                      and np.array_equal(x_new, e["x"]))
                if not ok and len(self.viols) < 3:
                    self.viols.append(V(
                        "recorded_value_update",
                        f"update of index {k_new}: the values / point stored "
                        f"are not those of the evaluation just made "
                        f"(evaluation {e['i']})", mechanism="recorded_update"))

    def on_update_post(self, run, models, args, out):
        pre, self.pre = self.pre, None
        if pre is None:
            return
        if out:
            self.ill += 1
        itp = models.interpolation
        k = pre["k"]
        # the stored values are those handed in, the point is x_new
        fv, cv, ev_ = pre["vals"]
        self.value_checks += 1
        xr = itp.point(k)
        xtol = 4 * EPS * np.maximum(np.abs(itp.x_base), np.abs(pre["x"]))
        if not (feq(models.fun_val[k], fv)
                and np.array_equal(models.cub_val[k], cv)
                and np.array_equal(models.ceq_val[k], ev_)
                and np.all(np.abs(xr - pre["x"]) <= xtol + 1e-300)):
            if len(self.viols) < 3:
                self.viols.append(V(
                    "recorded_value_stored",
                    f"after the update of index {k} the stored values / "
                    f"point are not the ones handed in",
                    mechanism="recorded_stored"))
        scale, ev, vec, big = solver_sysinfo(itp)
        npt = itp.npt
        nn = npt + itp.n + 1
        pollute = []
        for name in list(self.tol):
            if ev is None or name not in pre["d"]:
                self.tol[name] = np.inf
                continue
            cond = cond_kept(ev, big)
            dv = pre["d"][name]
            if dv != 0.0 and (not big.all() or cond > 1e12):
                pollute.append(name)
            add = nn * EPS * cond * abs(dv)
            if not big.all():
                b = np.zeros(nn)
                b[k] = dv / scale ** 2
                rn = b - vec[:, big] @ (vec[:, big].T @ b)
                add += np.max(np.abs(rn[:npt])) * scale ** 2
            if not np.isfinite(add):
                add = np.inf
            self.tol[name] = self.tol[name] + add
        self.check(models, "update ill=%s" % bool(out))
        # A correction solved on a (numerically) singular system is a
        # least-squares / heavily amplified solution: it may leave cancelling
        # coefficients of size |d|/lambda_min (1e31 observed) in the model,
        # which later geometry changes turn into O(1) errors.  The set was
        # not poised: no claim for that model until it is rebuilt.
        for name in pollute:
            self.tol[name] = np.inf
            self.polluted += 1

    def on_update_exc(self, run, models, args, exc):
        self.pre = None
        self.tol = {k: np.inf for k in self.tol}

    def on_shift_pre(self, run, models, args):
        # the shift re-expands every quadratic: rounding errors proportional
        # to the magnitude of the terms *before* the shift are baked into the
        # new coefficients
        itp = models.interpolation
        self.shift_mag = {}
        for name, q, vals in self.models_of(models):
            self.shift_mag[name] = max(
                float(mag(q, itp, itp.point(k))) for k in range(itp.npt))

    def on_shift_post(self, run, models, args, out):
        itp = models.interpolation
        for name, q, vals in self.models_of(models):
            after = max(float(mag(q, itp, itp.point(k)))
                        for k in range(itp.npt))
            add = 16.0 * EPS * max(self.shift_mag.get(name, 0.0), after)
            self.tol[name] = self.tol.get(name, np.inf) + add
        self.check(models, "shift")

    def on_reset_post(self, run, models, args, out):
        self.fresh(models)
        self.check(models, "reset")

    def attach(self, r, rec=None):
        r.on("models.init", self.on_init)
        r.on("models.update.pre", self.on_update_pre)
        r.on("models.update.post", self.on_update_post)
        r.on("models.update.exc", self.on_update_exc)
        r.on("models.shift.pre", self.on_shift_pre)
        r.on("models.shift.post", self.on_shift_post)
        r.on("models.reset.post", self.on_reset_post)

    def counts(self):
        return {"node_checks_judged": self.judged,
                "node_checks_skipped": self.skipped,
                "contract_events": self.events,
                "ill_conditioned_updates": self.ill,
                "recoveries_after_singularity": self.recovered,
                "recorded_value_checks": self.value_checks,
                "models_polluted_by_singular_update": self.polluted}
