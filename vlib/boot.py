"""Process bootstrap: import path, offline third-party deps, BLAS threads.

Every entry point calls ``boot.setup()`` before importing cobyqa.  The
repository under test is ``$VERIF_REPO`` (default /repo); it is put first on
``sys.path`` so that the working tree at that location is what executes (the
editable install in /venv resolves after ``sys.path``), and the import is
asserted to come from there.
"""
import fcntl
import os
import subprocess
import sys

VERIF = os.path.dirname(os.path.dirname(os.path.abspath(__file__)))
REPO = os.path.realpath(os.environ.get("VERIF_REPO", "/repo"))
DEPS = os.path.join(VERIF, ".deps")
WHEELS = "/opt/veriftools/wheels"
NEEDED = ("icontract", "jsonschema")

for _v in ("OPENBLAS_NUM_THREADS", "OMP_NUM_THREADS", "MKL_NUM_THREADS"):
    os.environ.setdefault(_v, "1")

_done = False


def ensure_deps():
    """Install icontract + jsonschema into /verif/.deps from the wheelhouse.

    ``.deps`` is git-ignored, so every check does this lazily (a lock file
    serialises concurrent checks)."""
    ok = all(os.path.isdir(os.path.join(DEPS, p)) for p in NEEDED)
    if not ok:
        os.makedirs(DEPS, exist_ok=True)
        with open(os.path.join(DEPS, ".lock"), "w") as lock:
            fcntl.flock(lock, fcntl.LOCK_EX)
            ok = all(os.path.isdir(os.path.join(DEPS, p)) for p in NEEDED)
            if not ok:
                env = dict(os.environ, PIP_NO_INDEX="1")
                subprocess.run(
                    [
                        sys.executable, "-m", "pip", "install", "-q",
                        "--no-index", "--find-links", WHEELS,
                        "--target", DEPS, "--upgrade", *NEEDED,
                    ],
                    check=True, env=env,
                    stdout=subprocess.DEVNULL, stderr=subprocess.PIPE,
                )
    if DEPS not in sys.path:
        sys.path.append(DEPS)


def setup(deps=True):
    global _done
    if _done:
        return
    if VERIF not in sys.path:
        sys.path.insert(0, VERIF)
    if sys.path[0] != REPO:
        sys.path.insert(0, REPO)
    if deps:
        ensure_deps()
    import cobyqa  # noqa: E402

    src = os.path.realpath(cobyqa.__file__)
    if not src.startswith(REPO + os.sep):
        raise RuntimeError(f"cobyqa imported from {src}, expected {REPO}")
    _done = True
