"""Driver shared by the C15 / C16 checks: hostile direct fuzz of the five
subsolvers through icontract postconditions, and real minimize runs in which
every subproblem the solver poses is judged by the same conditions."""
import warnings

import numpy as np

from . import e2e, gen, mrun, subs, ctx
from .oracles import V

BATCH = 120
_contracted = {}


def worker_init():
    _contracted.update(subs.contracted())


def _viol_records(col, prop, extra):
    out = []
    for p, clause, msg, w in col.viol:
        if p != prop:
            continue
        w = dict(w)
        w.update(extra)
        out.append(V(clause, msg, **w))
    return out


def fuzz_case(case, prop):
    rng = e2e.rng_of("SUB", case)      # same instances for C15 and C16
    if not _contracted:
        worker_init()
    viols = []
    nt = set()
    counts = {"subproblems": 0, "instances": 0}
    worst = {}
    gray = 0
    sample = None
    for b in range(BATCH):
        d = subs.fuzz_inputs(rng)
        counts["instances"] += 1
        h = d["h"]

        def hp(v, h=h):
            return h @ v

        def curv(v, h=h):
            return float(v @ h @ v)

        calls = []
        for imp in (True, False):
            calls.append(("tangential_byrd_omojokun",
                          (d["g"], hp, d["xl"].copy(), d["xu"].copy(),
                           d["delta"], False), {"improve_tcg": imp}))
            calls.append(("constrained_tangential_byrd_omojokun",
                          (d["g"], hp, d["xl"].copy(), d["xu"].copy(),
                           d["aub"], d["bub"].copy(), d["aeq"], d["delta"],
                           False), {"improve_tcg": imp}))
            calls.append(("normal_byrd_omojokun",
                          (d["aub"], d["bubn"].copy(), d["aeq"],
                           d["beq"].copy(), d["xl"].copy(), d["xu"].copy(),
                           d["delta"], False), {"improve_tcg": imp}))
        calls.append(("cauchy_geometry",
                      (d["const"], d["g"], curv, d["xl"].copy(),
                       d["xu"].copy(), d["delta"], False), {}))
        calls.append(("spider_geometry",
                      (d["const"], d["g"], curv, d["xpt"], d["xl"].copy(),
                       d["xu"].copy(), d["delta"], False), {}))
        for name, args, kw in calls:
            col = subs.collecting(subs.Collector())
            counts["subproblems"] += 1
            with warnings.catch_warnings():
                warnings.simplefilter("ignore")
                with np.errstate(all="ignore"):
                    try:
                        _contracted[name](*args, **kw)
                    except Exception as exc:  # noqa: BLE001
                        if prop == "C15":
                            viols.append(V(
                                "exception",
                                f"{name} raised {type(exc).__name__}: "
                                f"{str(exc)[:150]}",
                                mechanism=name + ":" + type(exc).__name__))
            subs.collecting(None)
            counts["postconditions"] = counts.get("postconditions", 0) \
                + col.checked
            gray += col.gray
            for k, v in col.worst.items():
                worst[k] = max(worst.get(k, 0.0), v)
            for t in col.tags:
                counts["tag:" + t] = counts.get("tag:" + t, 0) + 1
            inputs = {k: d[k] for k in ("g", "h", "xl", "xu", "delta", "aub",
                                        "bub", "aeq", "bubn", "beq", "const",
                                        "xpt")}
            viols += _viol_records(col, prop, {
                "solver": name, "kwargs": kw, "inputs": inputs,
                "degeneracies": d["tags"]})
            side = "+".join(sorted(t for t in col.tags
                                   if t in ("on_bound", "on_ball")))
            if d["tags"] or side:
                nt.add(name[:4] + "|" + ",".join(d["tags"]) + "|" + side)
        if sample is None and case["idx"] < 2:
            sample = {"n": d["n"], "g": d["g"], "H": d["h"], "xl": d["xl"],
                      "xu": d["xu"], "delta": d["delta"],
                      "degeneracies": d["tags"],
                      "solvers_run": [c[0] for c in calls]}
        if len(viols) > 20:
            break
    return e2e.record(case, viols[:10], nt=sorted(nt), tags=["fam:fuzz"],
                      counts=counts, gray=gray, sample=sample, maxes=worst)


def ulp_case(case, prop):
    """Mirror-image variables (same gradient component up to one ulp, Hessian
    symmetric under their exchange, same bounds): both reach their bounds at
    angles / step lengths that differ in the last bit.  400 instances per
    case, all three trust-region solvers, every postcondition."""
    rng = e2e.rng_of("SUBULP", case)
    if not _contracted:
        worker_init()
    viols = []
    counts = {"subproblems": 0, "instances": 0}
    worst = {}
    gray = 0
    nt = set()
    for b in range(400):
        n = int(rng.integers(3, 5))
        scale = float(10.0 ** rng.integers(-3, 4)) if rng.random() < 0.3 \
            else 1.0
        g = rng.standard_normal(n)
        g[1] = np.nextafter(g[0], np.inf) if rng.random() < 0.7 else g[0]
        bb = rng.standard_normal((n, n))
        h = 0.5 * (bb + bb.T) / scale
        h[1, 1] = h[0, 0]
        h[1, 2:] = h[0, 2:]
        h[2:, 1] = h[2:, 0]
        xl = np.full(n, -np.inf)
        xu = np.full(n, np.inf)
        xl[0] = xl[1] = -float(rng.uniform(0.2, 0.9)) * scale
        xu[0] = xu[1] = float(rng.uniform(0.2, 0.9)) * scale
        delta = scale * float(rng.uniform(0.8, 1.3))
        aeq = rng.standard_normal((2, n))
        aeq[:, 1] = aeq[:, 0]
        beq = rng.standard_normal(2) * 3 * scale
        counts["instances"] += 1

        def hp(v, h=h):
            return h @ v
        calls = [("tangential_byrd_omojokun",
                  (g, hp, xl.copy(), xu.copy(), delta, False),
                  {"improve_tcg": True}),
                 ("normal_byrd_omojokun",
                  (np.zeros((0, n)), np.zeros(0), aeq, beq.copy(), xl.copy(),
                   xu.copy(), delta, False), {"improve_tcg": True}),
                 ("constrained_tangential_byrd_omojokun",
                  (g, hp, xl.copy(), xu.copy(), np.zeros((0, n)), np.zeros(0),
                   np.zeros((0, n)), delta, False), {"improve_tcg": True})]
        for name, args, kw in calls:
            col = subs.collecting(subs.Collector())
            counts["subproblems"] += 1
            with warnings.catch_warnings():
                warnings.simplefilter("ignore")
                with np.errstate(all="ignore"):
                    try:
                        _contracted[name](*args, **kw)
                    except Exception as exc:  # noqa: BLE001
                        if prop == "C15":
                            viols.append(V(
                                "exception", f"{name} raised "
                                f"{type(exc).__name__}: {str(exc)[:150]}",
                                mechanism=name + ":" + type(exc).__name__))
            subs.collecting(None)
            counts["postconditions"] = counts.get("postconditions", 0) \
                + col.checked
            gray += col.gray
            for k, v in col.worst.items():
                worst[k] = max(worst.get(k, 0.0), v)
            viols += _viol_records(col, prop, {
                "solver": name, "kwargs": kw,
                "inputs": {"g": g, "h": h, "xl": xl, "xu": xu,
                           "delta": delta, "aeq": aeq, "beq": beq},
                "degeneracies": ["ulp_ties"]})
            side = "+".join(sorted(t for t in col.tags
                                   if t in ("on_bound", "on_ball")))
            nt.add(name[:4] + "|ulp_ties|" + side)
        if len(viols) > 6:
            break
    return e2e.record(case, viols[:6], nt=sorted(nt), tags=["fam:ulp_ties"],
                      counts=counts, gray=gray, maxes=worst)


def real_case(case, prop):
    rng = e2e.rng_of("SUBREAL", case)
    spec = gen.general(rng, maxfev=(30, 150), forms=("nlc", "dict_ineq"),
                       fun_none=0.05, with_faults=bool(rng.random() < 0.15))
    col = subs.Collector()
    seen = []

    def on_sub(run, name, args, kwargs, out):
        subs.collecting(col)
        try:
            with ctx.suspended():
                subs.check_call(name, args, kwargs, out)
        finally:
            subs.collecting(None)
        seen.append(name)

    def setup(r, rec):
        r.on("sub", on_sub)

    rec = mrun.run(spec, setup=setup)
    counts = e2e.base_counts(rec)
    counts["solver_posed_subproblems"] = len(seen)
    extra = e2e.audit(spec, rec, counts) if case["idx"] % 10 == 0 else []
    counts["postconditions"] = col.checked
    for t in col.tags:
        counts["tag:" + t] = 1
    viols = e2e.attach(_viol_records(col, prop, {"from": "real_run"}) + extra,
                       spec, rec)
    nt = None
    if seen and (col.tags & {"on_bound", "on_ball"}):
        nt = "real|" + gen.spec_signature(spec) + "|" + ",".join(
            sorted(set(s[:4] for s in seen)))
    sample = None
    if case["idx"] < 1:
        sample = {"spec": e2e.spec_brief(spec), "outcome": e2e.brief(rec),
                  "subproblems_posed": len(seen)}
    return e2e.record(case, viols[:10], nt=nt, tags=["fam:real"],
                      counts=counts, gray=col.gray, sample=sample,
                      maxes=col.worst)
