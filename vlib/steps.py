"""Logical-step counter: number of backward jumps (loop iterations) executed
inside cobyqa's own code objects, via sys.monitoring local events.  Used as a
wall-clock-independent progress measure for "returns in finite time" (C08)."""
import sys
import types

_state = {"on": False, "count": 0, "limit": None, "codes": []}


class StepLimit(BaseException):
    """Raised inside the solver when the logical budget is exhausted."""


def _codes_of(mod):
    seen = set()
    out = []

    def walk(code):
        if id(code) in seen:
            return
        seen.add(id(code))
        out.append(code)
        for c in code.co_consts:
            if isinstance(c, types.CodeType):
                walk(c)

    for obj in vars(mod).values():
        if isinstance(obj, types.FunctionType) and obj.__module__ == mod.__name__:
            walk(obj.__code__)
        elif isinstance(obj, type) and obj.__module__ == mod.__name__:
            for m in vars(obj).values():
                f = m
                if isinstance(m, (staticmethod, classmethod)):
                    f = m.__func__
                if isinstance(m, property):
                    for g in (m.fget, m.fset):
                        if g is not None and hasattr(g, "__code__"):
                            walk(getattr(g, "__wrapped__", g).__code__)
                    continue
                f = getattr(f, "__wrapped__", f)
                if isinstance(f, types.FunctionType):
                    walk(f.__code__)
    return out


def _on_jump(code, offset, dest):
    if dest < offset:
        _state["count"] += 1
        lim = _state["limit"]
        if lim is not None and _state["count"] > lim:
            _state["limit"] = None
            raise StepLimit(f"{_state['count']} loop iterations")


def enable():
    if _state["on"]:
        return
    import cobyqa.main, cobyqa.problem, cobyqa.models, cobyqa.framework  # noqa
    import cobyqa.subsolvers.optim, cobyqa.subsolvers.geometry  # noqa
    import cobyqa.utils.math  # noqa
    mon = sys.monitoring
    tool = mon.PROFILER_ID
    mon.use_tool_id(tool, "verif-steps")
    mon.register_callback(tool, mon.events.JUMP, _on_jump)
    codes = []
    for name in ("cobyqa.main", "cobyqa.problem", "cobyqa.models",
                 "cobyqa.framework", "cobyqa.subsolvers.optim",
                 "cobyqa.subsolvers.geometry", "cobyqa.utils.math"):
        codes += _codes_of(sys.modules[name])
    for c in codes:
        mon.set_local_events(tool, c, mon.events.JUMP)
    _state["codes"] = codes
    _state["on"] = True


def disable():
    if not _state["on"]:
        return
    mon = sys.monitoring
    tool = mon.PROFILER_ID
    for c in _state["codes"]:
        mon.set_local_events(tool, c, 0)
    mon.register_callback(tool, mon.events.JUMP, None)
    mon.free_tool_id(tool)
    _state["on"] = False


def reset(limit=None):
    _state["count"] = 0
    _state["limit"] = limit


def count():
    return _state["count"]
