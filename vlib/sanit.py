"""State sanitizers for C11: deep fingerprints of call arguments and of every
mutable object reachable from the globals / class attributes of cobyqa.*"""
import hashlib
import sys
import types

import numpy as np


def fp(obj, depth=0, seen=None):
    if seen is None:
        seen = set()
    if id(obj) in seen or depth > 7:
        return "cyc"
    if isinstance(obj, np.ndarray):
        if obj.dtype == object:
            return ("ndo", obj.shape, tuple(fp(o, depth + 1, seen)
                                            for o in obj.ravel()))
        return ("nd", obj.shape, str(obj.dtype), hashlib.sha1(
            np.ascontiguousarray(obj).tobytes()).hexdigest())
    if isinstance(obj, (int, float, str, bytes, bool, type(None), complex,
                        np.generic)):
        return ("v", repr(obj))
    seen = seen | {id(obj)}
    if isinstance(obj, dict):
        return ("d", tuple((repr(k), fp(v, depth + 1, seen))
                           for k, v in obj.items()))
    if isinstance(obj, (list, tuple, set, frozenset)):
        items = list(obj) if not isinstance(obj, (set, frozenset)) \
            else sorted(obj, key=repr)
        return (type(obj).__name__, tuple(fp(v, depth + 1, seen)
                                          for v in items))
    if hasattr(obj, "cache_info"):
        return ("cache", repr(obj.cache_info()))
    if type(obj).__module__.startswith("scipy.optimize") and hasattr(
            obj, "__dict__"):
        return ("scipy", type(obj).__name__, fp(
            {k: v for k, v in vars(obj).items() if not callable(v)},
            depth + 1, seen))
    return ("o", type(obj).__name__)


def module_state():
    out = {}
    # process-wide numerical state a call could leave behind
    import numpy as _np
    out[("numpy", "errstate")] = repr(sorted(_np.geterr().items()))
    out[("numpy", "printoptions")] = repr(sorted(
        (k, repr(v)) for k, v in _np.get_printoptions().items()))
    for name, mod in list(sys.modules.items()):
        if not (name == "cobyqa" or name.startswith("cobyqa.")) or \
                mod is None or ".tests" in name:
            continue
        for k, v in list(vars(mod).items()):
            if k.startswith("__") or isinstance(v, types.ModuleType):
                continue
            if isinstance(v, type):
                for ck, cv in list(vars(v).items()):
                    if ck.startswith("__"):
                        continue
                    if isinstance(cv, (types.FunctionType, property,
                                       staticmethod, classmethod)):
                        f = getattr(cv, "__func__", cv)
                        dd = getattr(f, "__dict__", None)
                        if dd:
                            out[(name, k, ck, "fdict")] = fp(
                                {a: b for a, b in dd.items()
                                 if a != "__wrapped__"})
                        continue
                    out[(name, k, ck)] = fp(cv)
            elif isinstance(v, types.FunctionType):
                dd = {a: b for a, b in v.__dict__.items()
                      if a not in ("__wrapped__", "__wrapped_sub__")}
                if dd:
                    out[(name, k, "fdict")] = fp(dd)
                if v.__defaults__:
                    out[(name, k, "defaults")] = fp(v.__defaults__)
            else:
                out[(name, k)] = fp(v)
    return out


def args_state(b):
    """Fingerprint of everything passed to minimize for a Built problem."""
    items = {"x0": fp(b.x0), "args": fp(b.args), "options": fp(b.options),
             "constants": fp(b.constants)}
    bd = b.bounds
    if bd is not None:
        items["bounds"] = fp(bd) if not hasattr(bd, "lb") else \
            ("Bounds", fp(np.asarray(bd.lb)), fp(np.asarray(bd.ub)),
             fp(getattr(bd, "keep_feasible", None)))
    cons = b.constraints if isinstance(b.constraints, (list, tuple)) \
        else [b.constraints]
    cs = []
    for c in cons:
        if isinstance(c, dict):
            cs.append(("dict", tuple(sorted(c)), fp(c.get("args")),
                       repr(c.get("type")), id(c.get("fun"))))
        elif hasattr(c, "A"):
            cs.append(("lin", fp(np.asarray(c.A)), fp(np.asarray(c.lb)),
                       fp(np.asarray(c.ub))))
        else:
            cs.append(("nl", fp(np.asarray(c.lb)), fp(np.asarray(c.ub)),
                       id(c.fun), tuple(
                           (k, id(v) if callable(v) else fp(v))
                           for k, v in sorted(vars(c).items())
                           if k not in ("fun", "lb", "ub"))))
    items["constraints"] = tuple(cs)
    items["n_constraints"] = len(cons)
    return items
