"""Evidence writer (validated against /root/.vp/EVIDENCE.schema.json when the
schema and jsonschema are available; a minimal structural check otherwise)."""
import json
import os

from . import boot
from .problems import jsonable

SCHEMA = "/root/.vp/EVIDENCE.schema.json"
LOCAL_SCHEMA = os.path.join(boot.VERIF, "vlib", "EVIDENCE.schema.json")


def write(check_id, tier, seed, coverage, assumptions, wall, violations,
          level="exploration"):
    doc = jsonable({
        "property_id": check_id,
        "tier": tier if tier in ("quick", "thorough") else "quick",
        "seed": int(seed),
        "level": level,
        "coverage": coverage,
        "assumptions": list(assumptions),
        "wall_s": float(wall),
        "violations": int(violations),
    })
    validate(doc)
    path = os.path.join(boot.VERIF, "evidence", f"{check_id}.json")
    os.makedirs(os.path.dirname(path), exist_ok=True)
    tmp = path + ".tmp"
    with open(tmp, "w") as fh:
        json.dump(doc, fh, indent=1, sort_keys=True)
    os.replace(tmp, path)
    return path


def validate(doc):
    for key in ("property_id", "tier", "seed", "level", "coverage", "wall_s"):
        if key not in doc:
            raise ValueError(f"evidence lacks {key}")
    schema_path = SCHEMA if os.path.exists(SCHEMA) else LOCAL_SCHEMA
    try:
        import jsonschema
    except ImportError:
        return
    if os.path.exists(schema_path):
        with open(schema_path) as fh:
            schema = json.load(fh)
        # An evidence file that would not validate is a harness bug: but a run
        # with fewer than two non-trivial cases is *inconclusive*, which the
        # runner reports; do not crash on that, clamp nothing, just report.
        try:
            jsonschema.validate(doc, schema)
        except jsonschema.ValidationError as exc:
            doc.setdefault("coverage", {})["schema_warning"] = str(
                exc.message)[:300]
