"""Shared scaffolding of the end-to-end checks (one monitored ``minimize`` per
case, offline oracles over its event log)."""
import os

import numpy as np

from . import gen, mrun, oracles
from .problems import jsonable

VERBOSE = lambda: bool(os.environ.get("VERIF_VERBOSE"))  # noqa: E731


def case_list(plan, tier, seed):
    """plan: list of (family, n_quick, n_thorough).  Deterministic ids."""
    out = []
    for fam, nq, nt in plan:
        count = nq if tier == "quick" else nt
        for i in range(count):
            out.append({"id": f"{fam}-{seed}-{i}", "fam": fam, "idx": i,
                        "seed": seed})
    return out


def rng_of(check_id, case):
    return gen.rng_for(case["seed"], check_id + ":" + case["fam"], case["idx"])


def base_counts(rec):
    c = rec.run.counts
    keep = ("eval.post", "spy.obj", "spy.con", "spy.cb", "step.tr.pre",
            "step.soc.pre", "step.geo.pre", "models.update.post", "final",
            "sub", "tr.mut")
    return {k: int(c.get(k, 0)) for k in keep if c.get(k, 0)}


def brief(rec):
    """A small, readable description of what happened in a run."""
    res = rec.res
    d = {"n": rec.built.n, "evals": len(rec.run.evals),
         "kinds": oracles.kinds_seen(rec),
         "result": mrun.result_summary(res) if res is not None else None,
         "exception": None if rec.exc is None else
         f"{type(rec.exc).__name__}: {str(rec.exc)[:160]}"}
    return d


def spec_brief(spec):
    s = {k: spec.get(k) for k in ("n", "x0", "options", "con_kind",
                                  "x0_where", "callback")}
    s["obj"] = spec.get("obj", {}).get("kind")
    if spec.get("bounds"):
        s["bounds"] = {k: spec["bounds"].get(k) for k in ("lb", "ub", "form",
                                                          "patterns")}
    s["n_lin"] = len(spec.get("lin", []))
    s["nl"] = [{"form": c.get("form"), "m": len(c["comps"]),
                "lb": c.get("lb"), "ub": c.get("ub")}
               for c in spec.get("nl", [])]
    s["faults"] = spec.get("faults")
    return jsonable(s)


def attach(viols, spec, rec=None):
    for v in viols:
        v.setdefault("witness", {})["spec"] = jsonable(spec)
        if rec is not None:
            v["witness"]["outcome"] = brief(rec)
    return viols


def record(case, viols, *, nt=None, tags=(), counts=None, gray=0, sample=None,
           maxes=None, skipped=False):
    if VERBOSE():
        for v in viols:
            print("VIOL", v["clause"], v["msg"])
    return {"case": case["id"], "violations": viols, "nt": nt,
            "tags": list(tags), "counts": counts or {}, "gray": gray,
            "sample": sample, "max": maxes or {}, "skipped": skipped}


def boundary_signature(rec):
    """Bitwise signature of a run at the user boundary (spies + result)."""
    import hashlib
    h = hashlib.sha1()
    for e in rec.run.log:
        h.update(e["t"].encode())
        h.update(e["x"].tobytes())
        v = e.get("v")
        if v is not None:
            h.update(np.asarray(v, dtype=float).tobytes())
    if rec.exc is not None:
        h.update(type(rec.exc).__name__.encode())
    elif rec.res is not None:
        r = rec.res
        h.update(np.asarray(r.x, dtype=float).tobytes())
        h.update(np.float64(r.fun).tobytes())
        h.update(repr((int(r.status), int(r.nfev), int(r.nit))).encode())
    return h.hexdigest()


def audit(spec, rec, counts):
    """Harness self-check: the same spec run without the check's monitors
    (taps only) must be bitwise identical at the user boundary.  Returns a
    list with one violation record when the monitors interfered."""
    from .oracles import V
    plain = mrun.run(spec)
    counts["noninterference_audits"] = counts.get(
        "noninterference_audits", 0) + 1
    if boundary_signature(plain) != boundary_signature(rec):
        return [V("monitor_interferes",
                  "harness self-check: the run with this check's monitors "
                  "attached differs from the plain run",
                  mechanism="harness:monitor")]
    return []


CROSS = ("c01", "c02", "c05", "c06", "c07", "c08")


def cross_spec(own_id, case):
    """Spec drawn from the workload generator of ANOTHER end-to-end check
    (same (seed, index) -> same spec as that check's own case), so that every
    oracle is also exercised on the workloads built around the other
    properties' quantifiers."""
    import importlib
    mods = [m for m in CROSS if m != own_id.lower()]
    mod = importlib.import_module("checks." + mods[case["idx"] % len(mods)])
    fams = [p[0] for p in mod.PLAN if p[0] not in ("malformed", "cross")]
    k = case["idx"] // len(mods)
    fam = fams[k % len(fams)]
    foreign = {"id": case["id"], "fam": fam, "idx": k // len(fams),
               "seed": case["seed"]}
    return mod.make_spec(foreign), mod.ID + ":" + fam
