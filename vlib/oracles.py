"""Offline oracles over the event log of one monitored run (``mrun.Rec``).

Each ``o_cNN(rec)`` returns (violations, info) where a violation is
{clause, msg, witness}.  The oracles use only (a) what the spies saw at the
user boundary, (b) copies recorded by the taps, (c) the user's own problem
data (``rec.built``) and (d) small reference models in ``vlib/refs``.
"""
import math

import numpy as np

from . import truth
from .refs import filt

EPS = np.finfo(float).eps
BARRIER = 2.0 ** 100

MESSAGES = {
    0: "The lower bound for the trust-region radius has been reached",
    1: "The target objective function value has been reached",
    2: "All variables are fixed by the bound constraints",
    3: "The callback requested to stop the optimization procedure",
    4: "The feasibility problem received has been solved successfully",
    5: "The maximum number of function evaluations has been exceeded",
    6: "The maximum number of iterations has been exceeded",
    -1: "The bound constraints are infeasible",
    -2: "A linear algebra error occurred",
}


def V(clause, msg, **w):
    return {"clause": clause, "msg": msg, "witness": w}


def feq(a, b):
    """Bitwise-equal floats up to NaN payload / sign of zero."""
    a = float(a)
    b = float(b)
    return a == b or (math.isnan(a) and math.isnan(b))


def consistent_bounds(b):
    return bool(np.all(b.lb <= b.ub))


def kinds_seen(rec):
    return sorted(set(e["kind"] for e in rec.run.evals))


def completed_options(rec):
    r = rec.run
    if r.final is not None:
        return r.final["options"]
    return r.settings.get("options", {})


def feas_tol(rec):
    """The tolerance the USER stated (documented default otherwise) - not
    the value found in the solver's completed options, which is code under
    test (C19 checks that the two agree)."""
    spec_opts = (getattr(rec, "spec", None) or {}).get("options") or {}
    if "feasibility_tol" in spec_opts:
        try:
            return float(spec_opts["feasibility_tol"])
        except (TypeError, ValueError):
            pass
    b = getattr(rec, "built", None)
    if b is not None and getattr(b, "options", None) and \
            "feasibility_tol" in b.options:
        return float(b.options["feasibility_tol"])
    return math.sqrt(EPS)


def user_of(rec, pb, x):
    """User-space image of the solver's point x: the documented map computed
    by the harness (truth.user_point) whenever it applies; Problem.build_x
    (code under test) only as a fallback for inconsistent bounds."""
    try:
        sc = bool((rec.run.settings.get("options")
                   or completed_options(rec) or {}).get("scale"))
        y = truth.user_point(rec.built, sc, np.asarray(x, dtype=float))
    except Exception:  # noqa: BLE001
        y = None
    if y is None:
        return np.array(pb.build_x(x), dtype=float)
    return y


def stated(rec, key, default):
    """A setting as the USER stated it (spec / arguments), else the
    documented default - never the solver's own completed dictionary."""
    spec_opts = (getattr(rec, "spec", None) or {}).get("options") or {}
    if key in spec_opts:
        try:
            return float(spec_opts[key])
        except (TypeError, ValueError):
            pass
    b = getattr(rec, "built", None)
    if b is not None and getattr(b, "options", None) and key in b.options:
        try:
            return float(b.options[key])
        except (TypeError, ValueError):
            pass
    return default


def eval_table(rec):
    """Per evaluation round (from the Problem.__call__ tap): user point,
    raw objective value, raw constraint values, true violation + slack,
    callback event.  Rounds whose log slice lacks the expected calls are
    flagged (incomplete) -- C06 judges that, the other oracles skip them."""
    b = rec.built
    out = []
    cons = consistent_bounds(b)
    last_x = {}
    last_v = {}
    for ev in rec.run.evals:
        sl = rec.run.log[ev["log0"]:ev.get("log1", ev["log0"])]
        objs = [e for e in sl if e["t"] == "obj"]
        row = {"i": ev["i"], "kind": ev["kind"], "penalty": ev["penalty"],
               "exc": ev["exc"], "slice": sl, "ok": True, "x": None,
               "f": 0.0, "cvals": None, "v": None, "slack": 0.0,
               "cb": [e for e in sl if e["t"] == "cb"]}
        if b.fun is not None:
            if len(objs) != 1 or not objs[0].get("done"):
                row["ok"] = False
            else:
                row["x"] = objs[0]["x"]
                row["f"] = float(objs[0]["v"])
        if row["x"] is None and not any(e["t"] == "con" for e in sl) \
                and b.fun is None and ev["exc"] in (None, "CallbackSuccess"):
            row["x"] = user_of(rec, ev["pb"], ev["x"])
        cvals = []
        for j in range(len(b.nl)):
            cj = [e for e in sl if e["t"] == "con" and e["j"] == j
                  and e.get("done")]
            if row["x"] is None and cj:
                row["x"] = cj[0]["x"]
            hit = [e for e in cj if row["x"] is not None
                   and e["x"].tobytes() == row["x"].tobytes()]
            if hit:
                cvals.append(hit[-1].get("v_stated", hit[-1]["v"]))
                last_x[j] = hit[-1]["x"].tobytes()
                last_v[j] = hit[-1].get("v_stated", hit[-1]["v"])
            elif row["x"] is not None and last_x.get(j) == row["x"].tobytes():
                cvals.append(last_v[j])          # legitimately cached
            else:
                row["ok"] = False
                cvals.append(None)
        row["cvals"] = cvals
        if row["ok"] and row["x"] is not None:
            row["v"], row["slack"] = truth.true_maxcv(b, row["x"], cvals, cons)
            # The solver evaluates the linear constraints at its internal
            # point; when that point lies outside the box by a rounding-level
            # excess e (relative to the size of its operands, judged by C01)
            # it is projected before the user functions see it, and the
            # linear residuals at the two points differ by up to |A| e.
            pb = ev["pb"]
            if cons and pb.bounds.is_feasible and \
                    ev["x"].shape == pb.bounds.xl.shape:
                with np.errstate(invalid="ignore"):
                    exc = np.maximum(np.maximum(pb.bounds.xl - ev["x"],
                                                ev["x"] - pb.bounds.xu), 0.0)
                if np.any(exc > 0):
                    add = 0.0
                    for a in (pb.linear.a_ub, pb.linear.a_eq):
                        if a.shape[0]:
                            add = max(add, float(np.max(np.abs(a) @ exc)))
                    row["slack"] = row["slack"] + 2.0 * add
                    row["projected_by"] = float(np.max(exc))
        out.append(row)
    return out


def barrier_clip(v):
    """The documented extreme barrier: NaN -> 2**100, then clip to
    [-2**100, 2**100]."""
    v = np.array(v, dtype=float, copy=True)
    v[np.isnan(v)] = BARRIER_REF
    return np.clip(v, -BARRIER_REF, BARRIER_REF)


def o_barrier(rec, table=None):
    """What Problem.__call__ hands to the models for an evaluation is the
    barrier-clipped image of what the user functions returned in that very
    evaluation: objective compared exactly; constraint values compared as
    multisets of the transformed slacks (lb - c, c - ub, c - mid) so that the
    internal ordering does not matter."""
    b = rec.built
    out = []
    info = {"barrier_checks": 0, "barrier_active": 0}
    table = table if table is not None else eval_table(rec)
    by_i = {r["i"]: r for r in table}
    for ev in rec.run.evals:
        r = by_i.get(ev["i"])
        if ev["ret"] is None or r is None or not r["ok"]:
            continue
        fun, cub, ceq = ev["ret"]
        info["barrier_checks"] += 1
        if b.fun is not None:
            raw = r["f"]
            want = float(barrier_clip([raw])[0])
            if not (math.isfinite(raw) and abs(raw) < BARRIER_REF):
                info["barrier_active"] += 1
            if not feq(fun, want):
                out.append(V("barrier_objective",
                             f"evaluation {ev['i'] + 1}: the objective "
                             f"returned {raw!r}; the solver works with "
                             f"{fun!r}, expected {want!r}",
                             mechanism="barrier:obj"))
                break
        # constraints: values actually returned in THIS round (no cache)
        sl = r["slice"]
        vals = []
        complete = True
        for j, nc in enumerate(b.nl):
            cj = [e for e in sl if e["t"] == "con" and e["j"] == j
                  and e.get("done")]
            if not cj:
                complete = False
                break
            vals.append((nc, np.atleast_1d(np.asarray(cj[-1]["v"], float))))
        if not complete or not b.nl:
            continue
        w_ub, w_eq = [], []
        zone = False
        for nc, v in vals:
            lo = np.broadcast_to(np.asarray(nc["lb"], float), v.shape)
            hi = np.broadcast_to(np.asarray(nc["ub"], float), v.shape)
            with np.errstate(invalid="ignore"):
                gap = np.abs(hi - lo)
            if np.any(np.isfinite(gap) & (gap > 0)
                      & (gap <= truth.CUSHION * truth.eq_tol(lo, hi))):
                # equal to rounding but not exactly: either reading accepted
                zone = True
            for i in range(v.size):
                if np.isfinite(lo[i]) and np.isfinite(hi[i]) and \
                        hi[i] == lo[i]:
                    w_eq.append(v[i] - 0.5 * (lo[i] + hi[i]))
                    continue
                if np.isfinite(lo[i]):
                    w_ub.append(lo[i] - v[i])
                if np.isfinite(hi[i]):
                    w_ub.append(v[i] - hi[i])
        if zone:
            info["zone_skipped"] = info.get("zone_skipped", 0) + 1
            continue
        for name, got, want in (("inequality", cub, w_ub),
                                ("equality", ceq, w_eq)):
            want = np.sort(barrier_clip(want)) if len(want) else np.zeros(0)
            got = np.sort(np.asarray(got, float))
            if np.any(~np.isfinite(np.asarray(
                    [x for _, v in vals for x in v]))):
                info["barrier_active"] += 1
            if got.shape != want.shape:
                continue          # C17 judges the translation itself
            bad = ~((got == want) | (np.abs(got - want) <= 4 * EPS * np.maximum(
                np.abs(got), np.abs(want))))
            if np.any(bad):
                k = int(np.argmax(bad))
                out.append(V("barrier_constraint",
                             f"evaluation {ev['i'] + 1}: {name} slacks the "
                             f"solver works with {got.tolist()} differ from "
                             f"the barrier-clipped image {want.tolist()} of "
                             f"the user's values", mechanism="barrier:con",
                             index=k))
                return out, info
    return out, info


# ======================================================================= C01
def o_c01(rec):
    b = rec.built
    out = []
    info = {"near_bound": 0, "kinds": kinds_seen(rec), "max_excess": 0.0,
            "boundary_events": 0}
    if not consistent_bounds(b):
        info["skipped"] = "inconsistent bounds"
        return out, info
    lb, ub = b.lb, b.ub
    width = np.where(np.isfinite(ub - lb), ub - lb, 1.0)

    def inside(x):
        return x.shape == lb.shape and bool(np.all(x >= lb) and np.all(x <= ub))

    for e in rec.run.log:
        x = e["x"]
        info["boundary_events"] += 1
        if not inside(x):
            fin = np.concatenate([lb[np.isfinite(lb)], ub[np.isfinite(ub)]])
            huge = fin.size and float(np.max(np.abs(fin))) >= 1e150
            scaled = bool(completed_options(rec).get("scale"))
            mech = "nan_point_huge_scaled_box" if (
                huge and scaled and np.any(np.isnan(x))) else None
            out.append(V("A.user_point_outside",
                         f"{e['t']} call #{e['seq']} at x={x.tolist()} outside "
                         f"[{lb.tolist()}, {ub.tolist()}]",
                         kind=e["t"], x=x, lb=lb, ub=ub, mechanism=mech))
            break
        with np.errstate(invalid="ignore"):
            near = np.minimum(np.abs(x - lb), np.abs(ub - x)) <= 1e-9 * np.maximum(width, 1e-300)
        if np.any(near & (lb < ub)):
            info["near_bound"] += 1
    if rec.res is not None:
        x = np.asarray(rec.res.x, dtype=float)
        if not inside(x):
            fin = np.concatenate([lb[np.isfinite(lb)], ub[np.isfinite(ub)]])
            huge = fin.size and float(np.max(np.abs(fin))) >= 1e150
            mech = "nan_point_huge_scaled_box" if (
                huge and bool(completed_options(rec).get("scale"))
                and x.shape == lb.shape and np.any(np.isnan(x))) else None
            out.append(V("A.result_outside", f"res.x={x.tolist()} outside bounds",
                         x=x, lb=lb, ub=ub, mechanism=mech))
    # B: trial points as generated (before any projection)
    for ev in rec.run.evals:
        pb = ev["pb"]
        if not pb.bounds.is_feasible:
            continue
        x = ev["x"]
        xl, xu = pb.bounds.xl, pb.bounds.xu
        if x.shape != xl.shape:
            continue
        with np.errstate(invalid="ignore"):
            exc = np.maximum(np.maximum(xl - x, x - xu), 0.0)
            tol = 64.0 * EPS * np.maximum(1.0, np.maximum(
                np.abs(x), np.maximum(np.where(np.isfinite(xl), np.abs(xl), 0),
                                      np.where(np.isfinite(xu), np.abs(xu), 0))))
            xb = ev.get("x_best")
            # the subsolvers rotate / project whole vectors: a component
            # carries an absolute error of order eps*|step|, not eps*|s_i|
            if x.size:
                tol = np.maximum(tol, 64.0 * EPS * float(np.max(np.abs(x))))
            if xb is not None and xb.shape == x.shape and x.size:
                # x = x_best + step: rounding relative to the operands
                tol = np.maximum(tol, 64.0 * EPS * float(np.max(np.abs(xb))))
                # an excess the centre already carries (it was judged, with
                # the scale of ITS operands, when that point was generated)
                # is inherited, not newly produced: the trial point must not
                # be farther outside than its centre by more than rounding
                tol = tol + np.maximum(np.maximum(xl - xb, xb - xu), 0.0)
        worst = float(np.max(exc / tol)) if exc.size else 0.0
        info["max_excess"] = max(info["max_excess"], worst)
        if worst > 1.0:
            out.append(V("B.trial_point_projected",
                         f"trial point of a '{ev['kind']}' step enters the "
                         f"evaluation outside the solver-space box by "
                         f"{float(np.max(exc)):.3g} and is silently projected",
                         mechanism="trial_outside:" + ev["kind"],
                         step_kind=ev["kind"], excess=float(np.max(exc)),
                         x=x, xl=xl, xu=xu, eval_index=ev["i"]))
            break
    # B': the same statement in the USER's variables, with the documented
    # map computed by the harness (independent of Problem.build_x and of the
    # solver's own box): the image of the solver's trial point lies in
    # [lb, ub] up to rounding BEFORE any projection, and the user functions
    # are called at that image (not at a repaired point).
    if not out:
        scale_opt = bool(completed_options(rec).get("scale"))
        for ev in rec.run.evals:
            if ev["exc"] not in (None, "CallbackSuccess"):
                continue
            raw = truth.user_point(b, scale_opt, ev["x"], project=False)
            if raw is None or not np.all(np.isfinite(raw)):
                continue
            info["map_checks"] = info.get("map_checks", 0) + 1
            with np.errstate(invalid="ignore"):
                exc = np.maximum(np.maximum(lb - raw, raw - ub), 0.0)
                mag = np.maximum(np.abs(raw), np.maximum(
                    np.where(np.isfinite(lb), np.abs(lb), 0.0),
                    np.where(np.isfinite(ub), np.abs(ub), 0.0)))
                wid = np.where(np.isfinite(ub - lb), ub - lb, 0.0)
                # rounding of x*factor+shift, plus the excess the solver-space
                # point is allowed by clause B (64 eps of ITS operands, i.e.
                # of a unit box when scaled), mapped to user units
                tol = 64.0 * EPS * (np.maximum(1.0, mag)
                                    + (wid if scale_opt else 0.0))
                xb = ev.get("x_best")
                if xb is not None and xb.shape == ev["x"].shape and xb.size:
                    rb = truth.user_point(b, scale_opt, xb, project=False)
                    if rb is not None and np.all(np.isfinite(rb)):
                        tol = tol + 64.0 * EPS * np.abs(rb) + np.maximum(
                            np.maximum(lb - rb, rb - ub), 0.0)
            # ... and the functions are called AT that image
            sl = rec.run.log[ev["log0"]:ev.get("log1", ev["log0"])]
            calls = [e for e in sl if e["t"] in ("obj", "con")]
            if calls:
                want = np.clip(raw, lb, ub)
                got = calls[0]["x"]
                if got.shape == want.shape:
                    with np.errstate(invalid="ignore"):
                        lim = 16.0 * EPS * (np.maximum(np.abs(want),
                                                       np.abs(got)) + mag)
                        bad = np.abs(got - want) > lim
                    if np.any(bad):
                        out.append(V(
                            "B.called_elsewhere",
                            f"the '{ev['kind']}' trial point "
                            f"{ev['x'].tolist()} corresponds to "
                            f"{want.tolist()} in the user's variables but "
                            f"the {calls[0]['t']} function was called at "
                            f"{got.tolist()}",
                            mechanism="called_elsewhere:" + ev["kind"],
                            eval_index=ev["i"]))
                        break
            worst = float(np.max(exc / tol)) if exc.size else 0.0
            if worst > 8.0:
                out.append(V(
                    "B.user_image_outside",
                    f"the image {raw.tolist()} (documented map, before "
                    f"projection) of the '{ev['kind']}' trial point "
                    f"{ev['x'].tolist()} lies outside the user's box by "
                    f"{float(np.max(exc)):.3g}: the functions were called "
                    f"at a repaired point",
                    mechanism="image_outside:" + ev["kind"],
                    excess=float(np.max(exc)), eval_index=ev["i"]))
                break
    return out, info


# ======================================================================= C02
def o_c02(rec):
    b = rec.built
    out = []
    info = {"active_or_violated": False, "nonfinite": False}
    res = rec.res
    if res is None:
        return out, info
    x = np.asarray(res.x, dtype=float)
    pts = rec.eval_points()
    match = [i for i, p in enumerate(pts) if p.tobytes() == x.tobytes()]
    if not match:
        close = [i for i, p in enumerate(pts) if p.shape == x.shape and
                 np.all(np.abs(p - x) <= 4 * EPS * np.maximum(1, np.abs(x)))]
        if close:
            info["gray"] = 1
        else:
            out.append(V("x_not_evaluated",
                         f"res.x={x.tolist()} is none of the {len(pts)} "
                         f"evaluated points", x=x, n_points=len(pts)))
        return out, info
    # fun
    if b.fun is not None:
        vals = [float(e["v"]) for e in rec.obj_events()
                if e["x"].tobytes() == x.tobytes() and e.get("done")]
        if not any(feq(res.fun, v) for v in vals):
            out.append(V("fun_mismatch",
                         f"res.fun={res.fun!r} but the objective returned "
                         f"{vals[:3]} at res.x", fun=res.fun, values=vals[:5]))
        if vals and not math.isfinite(vals[-1]):
            info["nonfinite"] = True
    else:
        if not feq(res.fun, 0.0):
            out.append(V("fun_mismatch", f"fun=None but res.fun={res.fun!r}"))
    # maxcv: the user functions may be history dependent (fault plans keyed
    # on the call index): every evaluation made at res.x with the returned
    # objective value is a legitimate origin of the returned pair
    tv, slack = rec.true_maxcv(x)
    if tv is None:
        out.append(V("constraint_not_evaluated_at_x",
                     "some constraint function was never called at res.x"))
        return out, info
    mv = float(res.maxcv)
    rows = [r for r in eval_table(rec) if r["ok"] and r["x"] is not None
            and r["x"].tobytes() == x.tobytes() and feq(r["f"], res.fun)]
    if rows:
        slack = max(slack, max(r["slack"] for r in rows))
    for r in rows:
        if r["v"] is not None and (feq(mv, r["v"]) or (
                math.isfinite(mv) and math.isfinite(r["v"]) and
                abs(mv - r["v"]) <= r["slack"] + 4 * EPS * max(abs(mv),
                                                               abs(r["v"])))):
            tv, slack = r["v"], r["slack"]
            break
    info["true_maxcv"] = tv
    if math.isnan(tv) or math.isinf(tv):
        info["nonfinite"] = True
    if tv > 0 or (isinstance(tv, float) and math.isnan(tv)):
        info["active_or_violated"] = True
    ok = feq(mv, tv)
    if not ok and math.isfinite(mv) and math.isfinite(tv):
        tol = slack + 4 * EPS * max(abs(tv), abs(mv))
        err = abs(mv - tv)
        if err <= tol:
            ok = True
        elif err <= 1e3 * tol:
            ok = True
            info["gray"] = info.get("gray", 0) + 1
        info["maxcv_err_over_tol"] = err / tol if tol > 0 else None
    if not ok:
        o = completed_options(rec)
        mech = []
        if b.nl:
            mech.append("nl")
        if o.get("scale"):
            mech.append("scale")
        if np.any(b.lb == b.ub):
            mech.append("fixed")
        if b.lin:
            mech.append("lin")
        out.append(V("maxcv_mismatch",
                     f"res.maxcv={mv!r} but the true violation of the user's "
                     f"constraints at res.x is {tv!r} (slack {slack:.2g})",
                     mechanism="+".join(mech), maxcv=mv, true=tv, x=x))
    return out, info


# ======================================================================= C03
def o_c03(rec, table=None):
    """End-to-end: the returned pair is optimal for the whole history."""
    out = []
    info = {"clause": None}
    res = rec.res
    if res is None or rec.run.final is None:
        return out, info
    o = completed_options(rec)
    table = table if table is not None else eval_table(rec)
    if any(not r["ok"] for r in table) or not table:
        info["skipped"] = "incomplete rounds"
        return out, info
    hist = [(r["f"], r["v"]) for r in table]
    slacks = [r["slack"] for r in table]
    delta = max(slacks)
    x = np.asarray(res.x, dtype=float)
    cand = [r for r in table if r["x"].tobytes() == x.tobytes()
            and feq(r["f"], res.fun)]
    if not cand:
        # the reported fun does not belong to x (C02 judges that); the POINT
        # returned is still judged here, with the values it truly has
        cand = [r for r in table if r["x"].tobytes() == x.tobytes()]
        info["fun_mismatch"] = bool(cand)
    if not cand:
        if not any(r["x"].tobytes() == x.tobytes() for r in table) \
                and x.shape == table[0]["x"].shape \
                and np.all(np.isfinite(x)):
            # the returned x is not even one of the evaluated points: it
            # cannot be 'the best of the points evaluated'
            out.append(V("returned_point_not_evaluated",
                         f"res.x={x.tolist()} is none of the "
                         f"{len(table)} evaluated points",
                         mechanism="not_evaluated"))
        info["skipped"] = "returned point not in history (C02)"
        return out, info
    pen = float(rec.run.final["penalty"])
    tol = feas_tol(rec)
    fs = int(o.get("filter_size", 2**62))
    if fs < len(hist):
        kept = filt.simulate_filter(hist, fs)
        if delta > 0 and len(kept) != len(hist):
            info["skipped"] = "finite filter with rounding slack"
            return out, info
        hist = [hist[k] for k in kept]
        slacks = [slacks[k] for k in kept]
        info["finite_filter"] = True
    pick = cand[-1]
    for q in cand:
        if q["v"] is not None and (feq(q["v"], res.maxcv) or (
                math.isfinite(q["v"]) and math.isfinite(res.maxcv) and
                abs(q["v"] - res.maxcv) <= 1e3 * q["slack"] + 4 * EPS * max(
                    abs(q["v"]), abs(res.maxcv)))):
            pick = q
            break
    ret = (pick["f"], pick["v"])
    verdict, clause, msg = filt.judge(hist, pen, tol, ret, delta, slacks)
    info["clause"] = clause
    info["n_hist"] = len(hist)
    info["has_nan"] = any(math.isnan(f) or (isinstance(v, float) and
                                            math.isnan(v)) for f, v in hist)
    if verdict == "ambiguous":
        info["ambiguous"] = True
    elif verdict == "bad":
        mech = "nan_in_history" if info["has_nan"] else "plain"
        out.append(V(clause, msg, mechanism=mech, penalty=pen, tol=tol,
                     returned=ret, n_hist=len(hist)))
    return out, info


# ======================================================================= C05
def o_c05(rec, table=None):
    b = rec.built
    out = []
    info = {"binding": None}
    res = rec.res
    if res is None:
        return out, info
    o = completed_options(rec)
    n_tap = len(rec.run.evals)
    if b.fun is not None:
        e_count = len(rec.obj_events())
        if e_count != n_tap:
            out.append(V("objective_calls_vs_evaluations",
                         f"{e_count} objective calls but {n_tap} problem "
                         f"evaluations", obj_calls=e_count, evals=n_tap))
    else:
        e_count = n_tap
    info["E"] = e_count
    # no user function is called more often than the problem is evaluated:
    # nfev counts EVERYTHING the run asked of the user
    for j in range(len(b.nl)):
        cj = sum(1 for e in rec.run.log if e["t"] == "con" and e["j"] == j)
        if cj > n_tap:
            out.append(V("constraint_calls_exceed_evaluations",
                         f"constraint function {j} was called {cj} times "
                         f"but the problem was evaluated at {n_tap} points "
                         f"(nfev={res.nfev})", mechanism="uncounted_calls",
                         calls=cj, evals=n_tap))
            break
    maxfev = o.get("maxfev")
    maxiter = o.get("maxiter")
    if maxfev is not None and e_count > maxfev:
        out.append(V("maxfev_exceeded",
                     f"{e_count} evaluations with maxfev={maxfev}",
                     mechanism="fun_none" if b.fun is None else "fun",
                     E=e_count, maxfev=maxfev))
    if int(res.nfev) != e_count:
        out.append(V("nfev_untruthful",
                     f"res.nfev={res.nfev} but the problem was evaluated at "
                     f"{e_count} points",
                     mechanism="fun_none" if b.fun is None else "fun",
                     nfev=int(res.nfev), E=e_count))
    if maxiter is not None and int(res.nit) > maxiter:
        out.append(V("maxiter_exceeded", f"nit={res.nit} > maxiter={maxiter}"))
    if maxfev is not None and e_count == maxfev:
        info["binding"] = "maxfev"
    if maxiter is not None and int(res.nit) == maxiter:
        info["binding"] = "maxiter"
    if o.get("store_history"):
        if "fun_history" not in res or "maxcv_history" not in res:
            out.append(V("history_missing", "store_history set but no history "
                                            "in the result"))
            return out, info
        table = table if table is not None else eval_table(rec)
        hs = int(o.get("history_size", 2**62))
        want = table[-min(len(table), hs):] if table else []
        fh = np.asarray(res.fun_history, dtype=float)
        mh = np.asarray(res.maxcv_history, dtype=float)
        if hs < len(table):
            info["binding"] = (info["binding"] or "") + "+history_trim"
        if len(fh) != len(want) or len(mh) != len(want):
            out.append(V("history_length",
                         f"history lengths {len(fh)}/{len(mh)} but "
                         f"min(nfev, history_size)={len(want)}"))
        else:
            for k, r in enumerate(want):
                if not r["ok"]:
                    continue
                if not feq(fh[k], r["f"]):
                    out.append(V("fun_history_value",
                                 f"fun_history[{k}]={fh[k]!r} but the "
                                 f"objective returned {r['f']!r} at that "
                                 f"evaluation", k=k))
                    break
                tv, sl = r["v"], r["slack"]
                mv = float(mh[k])
                good = feq(mv, tv) or (
                    math.isfinite(mv) and math.isfinite(tv) and
                    abs(mv - tv) <= 1e3 * (sl + 4 * EPS * max(abs(tv),
                                                              abs(mv))))
                if not good:
                    mech = []
                    if b.nl:
                        mech.append("nl")
                    if o.get("scale"):
                        mech.append("scale")
                    if np.any(b.lb == b.ub):
                        mech.append("fixed")
                    out.append(V("maxcv_history_value",
                                 f"maxcv_history[{k}]={mv!r} but the true "
                                 f"violation at that evaluation is {tv!r}",
                                 mechanism="+".join(mech), k=k))
                    break
    return out, info


# ======================================================================= C06
def o_c06(rec):
    b = rec.built
    out = []
    info = {"rounds": len(rec.run.evals), "penalty_positive": False,
            "omitted_cached": 0}
    log = rec.run.log
    covered = np.zeros(len(log), dtype=bool)
    last_x = {}
    n_user = b.n
    for ev in rec.run.evals:
        if ev["penalty"] > 0:
            info["penalty_positive"] = True
        a, z = ev["log0"], ev.get("log1", ev["log0"])
        covered[a:z] = True
        sl = log[a:z]
        objs = [e for e in sl if e["t"] == "obj"]
        if b.fun is not None and len(objs) != 1 and ev["exc"] is None:
            out.append(V("objective_calls_per_evaluation",
                         f"evaluation {ev['i']} called the objective "
                         f"{len(objs)} times", n=len(objs)))
            break
        point = objs[0]["x"] if objs else None
        if point is not None and ev["exc"] is None:
            # the user point is the DOCUMENTED image of the solver's point
            # (harness map, independent of Problem.build_x)
            want = truth.user_point(b, bool(completed_options(rec).get(
                "scale")), ev["x"])
            if want is not None and np.all(np.isfinite(want)):
                info["map_checks"] = info.get("map_checks", 0) + 1
                err = np.abs(point - want)
                lim = 8 * EPS * np.maximum(np.abs(want), np.abs(point)) \
                    + 8 * EPS * np.maximum(
                        np.where(np.isfinite(b.lb), np.abs(b.lb), 0.0),
                        np.where(np.isfinite(b.ub), np.abs(b.ub), 0.0))
                if point.shape != want.shape or np.any(err > lim):
                    out.append(V(
                        "user_point_not_documented_map",
                        f"evaluation {ev['i']}: the objective was called at "
                        f"{point.tolist()} but the solver's point "
                        f"{ev['x'].tolist()} corresponds to {want.tolist()} "
                        f"in the user's variables", mechanism="map"))
                    break
        if point is None and not any(e["t"] == "con" for e in sl):
            # no user function called in this round (fun=None and every
            # constraint call served by the one-entry cache): the user point
            # is only known through the pure map build_x
            point = user_of(rec, ev["pb"], ev["x"])
        for j in range(len(b.nl)):
            cj = [e for e in sl if e["t"] == "con" and e["j"] == j]
            if point is None and cj:
                point = cj[0]["x"]
            if len(cj) > 1:
                pts = [e["x"].tolist() for e in cj[:3]]
                out.append(V("constraint_called_twice",
                             f"evaluation {ev['i']} called constraint {j} "
                             f"{len(cj)} times (points {pts})",
                             mechanism="in_round", j=j, n=len(cj)))
                return out, info
            if len(cj) == 1:
                if point is not None and \
                        cj[0]["x"].tobytes() != point.tobytes():
                    out.append(V("constraint_point_differs",
                                 f"evaluation {ev['i']}: constraint {j} called "
                                 f"at {cj[0]['x'].tolist()} but the evaluation "
                                 f"point is {point.tolist()}",
                                 mechanism="in_round", j=j))
                    return out, info
                last_x[j] = cj[0]["x"].tobytes()
            elif ev["exc"] is None or ev["exc"] == "CallbackSuccess":
                if point is None or last_x.get(j) != point.tobytes():
                    out.append(V("constraint_call_missing",
                                 f"evaluation {ev['i']}: constraint {j} not "
                                 f"called although the point differs from its "
                                 f"previous call point", j=j))
                    return out, info
                info["omitted_cached"] += 1
    for k, e in enumerate(log):
        if e["t"] == "con" and "args_got" in e:
            out.append(V("constraint_called_with_wrong_args",
                         f"constraint {e['j']} was stated with extra "
                         f"arguments {e['args_stated']} but called with "
                         f"{e['args_got']}", mechanism="wrong_args",
                         j=e["j"]))
            return out, info
        if e["t"] in ("obj", "con"):
            if e["x"].shape != (n_user,):
                out.append(V("call_in_internal_variables",
                             f"{e['t']} called with a point of shape "
                             f"{e['x'].shape}, user space has n={n_user}",
                             mechanism="reduced_point", shape=e["x"].shape))
                return out, info
            if not covered[k]:
                phase = "result_assembly" if (
                    rec.run.final and k >= rec.run.final["log0"]) else "solver"
                out.append(V("hidden_call",
                             f"user function '{e['t']}'"
                             f"{'#' + str(e.get('j')) if e['t'] == 'con' else ''}"
                             f" called outside any counted evaluation "
                             f"(log #{k}, phase {phase}) at {e['x'].tolist()}",
                             mechanism="hidden:" + phase, kind=e["t"],
                             j=e.get("j")))
                return out, info
    if rec.res is not None and int(rec.res.nfev) != len(rec.run.evals) \
            and b.fun is not None:
        out.append(V("nfev_vs_rounds",
                     f"res.nfev={rec.res.nfev} but {len(rec.run.evals)} "
                     f"evaluation rounds were observed"))
    return out, info


# ======================================================================= C07
def o_c07(rec, table=None):
    b = rec.built
    out = []
    info = {"status": None, "phase": None}
    res = rec.res
    if res is None:
        return out, info
    st = res.get("status")
    info["status"] = st
    o = completed_options(rec)
    tol = feas_tol(rec)
    kinds = kinds_seen(rec)
    info["phase"] = "pre" if rec.run.tr is None else (
        "init" if not rec.run.counts.get("step.tr.pre") else "loop")
    if st not in MESSAGES or isinstance(st, bool):
        out.append(V("status_unknown", f"status={st!r} is not documented"))
        return out, info
    msg = str(res.get("message", "")).rstrip(".")
    if msg != MESSAGES[st]:
        out.append(V("message", f"status {st} carries message {msg!r}",
                     status=st))
    x = np.asarray(res.x, dtype=float)
    tv, slack = rec.true_maxcv(x)
    slack = slack or 0.0
    if st == 0:
        tr = rec.run.tr
        rf = o.get("radius_final")
        if tr is None or tr.resolution > rf:
            out.append(V("status0_resolution",
                         f"status 0 with final resolution "
                         f"{None if tr is None else tr.resolution} > "
                         f"radius_final {rf}"))
    elif st == 1:
        target = stated(rec, "target", -math.inf)
        if not (res.fun <= target):
            out.append(V("status1_target", f"status 1 but fun={res.fun} > "
                                           f"target={target}"))
        if tv is not None and not (tv <= tol + slack):
            out.append(V("status1_feasible", f"status 1 but true violation "
                                             f"{tv} > tol {tol}"))
    elif st == 2:
        wid = b.ub - b.lb
        if not np.all((b.lb <= b.ub)
                      & (wid <= truth.CUSHION * truth.eq_tol(b.lb, b.ub))):
            out.append(V("status2_fixed", "status 2 but some variable is not "
                                          "fixed by the bounds"))
    elif st == 3:
        if not any(e.get("stop") for e in rec.cb_events()):
            out.append(V("status3_callback", "status 3 but the callback never "
                                             "raised StopIteration"))
    elif st == 4:
        if b.fun is not None:
            out.append(V("status4_not_feasibility", "status 4 with an "
                                                    "objective function"))
        if tv is not None and not (tv <= tol + slack):
            out.append(V("status4_feasible", f"status 4 but true violation "
                                             f"{tv} > tol {tol}"))
    elif st == 5:
        if int(res.nfev) != o.get("maxfev"):
            out.append(V("status5_nfev", f"status 5 but nfev={res.nfev} != "
                                         f"maxfev={o.get('maxfev')}"))
    elif st == 6:
        if int(res.nit) != o.get("maxiter"):
            out.append(V("status6_nit",
                         f"status 6 ('iterations') but nit={res.nit} != "
                         f"maxiter={o.get('maxiter')} (nfev={res.nfev}, "
                         f"maxfev={o.get('maxfev')})",
                         mechanism="init_sampling_budget"
                         if info["phase"] == "init" else "loop",
                         nit=int(res.nit), nfev=int(res.nfev)))
    elif st == -1:
        if consistent_bounds(b):
            out.append(V("status-1_bounds", "status -1 but lb <= ub holds"))
    _beyond_barrier(out, stated(rec, "target", -math.inf))
    if res.get("success"):
        if st not in (0, 1, 2, 3, 4):
            out.append(V("success_status", f"success with status {st}"))
        if not (math.isfinite(res.fun) and math.isfinite(res.maxcv)):
            out.append(V("success_nonfinite", f"success with fun={res.fun}, "
                                              f"maxcv={res.maxcv}"))
        if st not in (1, 4) and not (res.maxcv <= tol):
            out.append(V("success_infeasible", f"success with maxcv="
                                               f"{res.maxcv} > tol {tol}"))
        if tv is not None and math.isfinite(tv) and tv > tol + 1e3 * slack \
                + 1e-300:
            out.append(V("success_truly_infeasible",
                         f"success although the true violation at res.x is "
                         f"{tv} > tol {tol}", mechanism="true_maxcv"))
    info["kinds"] = kinds
    return out, info


# ======================================================================= C08
FIELDS = ("message", "success", "status", "x", "fun", "maxcv", "nfev", "nit")


def o_c08(rec):
    b = rec.built
    out = []
    info = {"exception": None}
    if rec.exc is not None and type(rec.exc) in (
            ArithmeticError, StopIteration) and str(rec.exc).startswith(
            "injected"):
        # the failure of a USER function (injected by the workload)
        # propagates: that is the user's exception, not an internal one
        info["exception"] = "user:" + type(rec.exc).__name__
        return out, info
    if rec.exc is not None:
        info["exception"] = type(rec.exc).__name__
        out.append(V("exception_escaped",
                     f"minimize raised {type(rec.exc).__name__}: "
                     f"{str(rec.exc)[:200]}",
                     mechanism="exc:" + type(rec.exc).__name__,
                     exc_type=type(rec.exc).__name__, text=str(rec.exc)[:300]))
        return out, info
    res = rec.res
    from scipy.optimize import OptimizeResult
    if not isinstance(res, OptimizeResult):
        out.append(V("result_type", f"returned {type(res).__name__}"))
        return out, info
    for k in FIELDS:
        if k not in res:
            out.append(V("field_missing", f"result lacks '{k}'"))
            return out, info
    x = np.asarray(res.x)
    if x.shape != (b.n,) or x.dtype.kind != "f":
        out.append(V("x_shape", f"res.x has shape {x.shape}, dtype {x.dtype}"))
    for k in ("fun", "maxcv"):
        if not isinstance(res[k], (float, np.floating)):
            out.append(V("field_type", f"res.{k} is {type(res[k]).__name__}"))
    for k in ("nfev", "nit", "status"):
        if isinstance(res[k], bool) or not isinstance(res[k],
                                                      (int, np.integer)):
            out.append(V("field_type", f"res.{k} is {type(res[k]).__name__}"))
    if not isinstance(res["success"], (bool, np.bool_)):
        out.append(V("field_type", "res.success is not a bool"))
    if not isinstance(res["message"], str):
        out.append(V("field_type", "res.message is not a str"))
    if res["success"] and (math.isnan(float(res.fun)) or
                           math.isnan(float(res.maxcv))):
        out.append(V("nan_success", f"success with fun={res.fun} "
                                    f"maxcv={res.maxcv}"))
    if res["success"]:
        # the same with the TRUE values at res.x (as the user functions
        # returned them there): an undefined constraint or objective value
        # must not hide behind a finite reported one
        try:
            tv, _sl = rec.true_maxcv(np.asarray(res.x, dtype=float))
        except Exception:  # noqa: BLE001
            tv = None
        if tv is not None and math.isnan(tv):
            out.append(V("nan_success_true",
                         f"success=True (maxcv={res.maxcv}) although the "
                         f"constraint violation at res.x is undefined (NaN) "
                         f"according to the values the user functions "
                         f"returned there", mechanism="true_maxcv_nan"))
    # values handed to the models
    for ev in rec.run.evals:
        if ev["ret"] is None:
            continue
        f, cub, ceq = ev["ret"]
        allv = np.concatenate([[f], cub, ceq])
        if not np.all(np.isfinite(allv)) or np.any(np.abs(allv) > BARRIER):
            out.append(V("nonfinite_into_models",
                         f"evaluation {ev['i']} handed {allv.tolist()} to "
                         f"the solver", values=allv))
            break
    return out, info


# ======================================================================= C09
def o_c09(rec, table=None):
    """Stopping requests: forward (first satisfied request ends the run) and
    converse (status 1/3/4 only if the request holds at the last round)."""
    b = rec.built
    out = []
    info = {"trigger": None, "trigger_kind": None, "ambiguous": False}
    res = rec.res
    if res is None:
        return out, info
    o = completed_options(rec)
    degenerate = rec.run.tr is None and res.status in (2, -1)
    table = table if table is not None else eval_table(rec)
    tol = feas_tol(rec)
    target = stated(rec, "target", -math.inf)
    first = None
    for r in table:
        if not r["ok"]:
            info["ambiguous"] = True
            break
        sat = set()
        v, sl = r["v"], r["slack"]
        sl = 1e3 * sl + 1e-300
        knife = False
        if v is not None and not math.isnan(v):
            if abs(v - tol) <= sl:
                knife = True
            feasible = v <= tol
        else:
            feasible = False
        if b.fun is None and feasible:
            sat.add(4)
        f_ok = b.fun is not None and target > -math.inf and \
            r["f"] is not None and not math.isnan(r["f"]) and \
            r["f"] <= target
        if f_ok and feasible:
            sat.add(1)
        if any(e.get("stop") for e in r["cb"]):
            sat.add(3)
        if knife and (b.fun is None or f_ok):
            info["ambiguous"] = True
            break
        if sat:
            first = (r, sat)
            break
    if info["ambiguous"]:
        return out, info
    n_rounds = len(table)
    if first is not None:
        r, sat = first
        k = r["i"] + 1
        info["trigger"] = sorted(sat)
        info["trigger_kind"] = r["kind"]
        if n_rounds != k:
            out.append(V("continued_after_trigger",
                         f"request {sorted(sat)} satisfied at evaluation {k} "
                         f"('{r['kind']}' step) but {n_rounds} evaluations "
                         f"were made", k=k, rounds=n_rounds, kind=r["kind"]))
        later = [e for e in rec.run.log[r["slice"][-1]["seq"] + 1:]
                 if e["t"] in ("obj", "con", "cb")] if r["slice"] else []
        if later and n_rounds == k:
            out.append(V("user_call_after_trigger",
                         f"{len(later)} user calls after the triggering "
                         f"evaluation {k}", k=k,
                         mechanism="after_trigger:" + later[0]["t"]))
        if res.status not in sat:
            out.append(V("status_after_trigger",
                         f"request {sorted(sat)} satisfied at evaluation {k} "
                         f"but status={res.status}", k=k, status=res.status,
                         mechanism="degenerate_early_exit" if degenerate
                         else "status"))
        if int(res.nfev) != k:
            out.append(V("nfev_after_trigger",
                         f"request satisfied at evaluation {k} but "
                         f"nfev={res.nfev}",
                         mechanism="fun_none" if b.fun is None else "fun",
                         k=k, nfev=int(res.nfev)))
        # the result satisfies the request
        x = np.asarray(res.x, dtype=float)
        tv, sl = rec.true_maxcv(x)
        if res.status == 1 and not (res.fun <= target and tv is not None
                                    and tv <= tol + 1e3 * sl):
            out.append(V("result_misses_request",
                         f"status 1 but result fun={res.fun}, true violation "
                         f"{tv}"))
        if res.status == 4 and not (tv is not None and tv <= tol + 1e3 * sl):
            out.append(V("result_misses_request",
                         f"status 4 but true violation {tv}"))
        if res.status == 3 and r["cb"]:
            cbx = r["cb"][-1]["x"]
            if cbx.tobytes() != x.tobytes():
                out.append(V("result_not_callback_point",
                             "status 3 but res.x is not the point handed to "
                             "the stopping callback"))
    else:
        if res.status in (1, 3, 4) and table and all(r["ok"] for r in table):
            out.append(V("status_without_event",
                         f"status {res.status} reported but no evaluation "
                         f"satisfied that request", status=res.status))
    _beyond_barrier(out, target)
    return out, info


BARRIER_REF = 2.0 ** 100      # documented extreme barrier for float64


def _beyond_barrier(viols, target):
    """A target at or beyond the extreme barrier (+-2**100, +-inf) is
    compared by the solver with barrier-clipped objective values: label the
    violations so that the known finding is keyed on this mechanism."""
    if target is not None and not math.isnan(target) and \
            target > -math.inf and abs(target) >= BARRIER_REF:
        for v in viols:
            if v["clause"] in ("status_without_event", "status_after_trigger",
                               "continued_after_trigger",
                               "nfev_after_trigger", "result_misses_request",
                               "status1_target", "user_call_after_trigger"):
                v["witness"]["mechanism"] = "target_beyond_barrier"


# ======================================================================= C20
def o_c20(rec, table=None):
    b = rec.built
    out = []
    info = {"calls": 0, "best_changed": 0, "best_not_last": 0}
    if b.callback is None:
        return out, info
    if not consistent_bounds(b):
        return out, info
    spec_cb = rec.spec.get("callback") or {}
    want_conv = spec_cb.get("conv", "pos")
    table = table if table is not None else eval_table(rec)
    tol = feas_tol(rec)
    o = completed_options(rec)
    fs = int(o.get("filter_size", 2**62))
    prev = None
    ids = set()
    hist = []
    for r in table:
        if not r["ok"]:
            info["skipped"] = "incomplete round"
            return out, info
        hist.append((r["f"], r["v"]))
        cbs = r["cb"]
        if len(cbs) != 1:
            if r["exc"] not in (None, "CallbackSuccess") and not cbs:
                continue
            out.append(V("callback_calls_per_evaluation",
                         f"evaluation {r['i'] + 1} invoked the callback "
                         f"{len(cbs)} times", n=len(cbs)))
            return out, info
        cb = cbs[0]
        info["calls"] += 1
        last_user = max((e["seq"] for e in r["slice"]
                         if e["t"] in ("obj", "con")), default=-1)
        if cb["seq"] < last_user:
            out.append(V("callback_before_functions",
                         f"callback of evaluation {r['i'] + 1} ran before "
                         f"the user functions finished"))
            return out, info
        if cb["conv"] != want_conv:
            out.append(V("calling_convention",
                         f"callback with signature '{want_conv}' invoked as "
                         f"'{cb['conv']}'"))
            return out, info
        x = cb["x"]
        if x.shape != (b.n,) or not (np.all(x >= b.lb) and np.all(x <= b.ub)):
            out.append(V("callback_point_space",
                         f"callback received {x.tolist()} (shape {x.shape}) "
                         f"outside the user's box / space",
                         mechanism="cb_point"))
            return out, info
        if cb["xid"] in ids:
            out.append(V("callback_array_shared",
                         "the callback received the same array object twice"))
            return out, info
        ids.add(cb["xid"])
        if cb.get("writeable") is False:
            out.append(V("callback_array_readonly",
                         "array handed to the callback is not writeable"))
        # the point is an evaluated point, optimal for the history so far
        cand = [q for q in table[:r["i"] + 1]
                if q["x"].tobytes() == x.tobytes()]
        if want_conv == "kw":
            cand = [q for q in cand if feq(q["f"], cb["fun"])]
        if not cand:
            out.append(V("callback_point_not_evaluated",
                         f"callback {r['i'] + 1} received x={x.tolist()} "
                         f"fun={cb['fun']} which is no evaluated point/value",
                         mechanism="cb_not_evaluated"))
            return out, info
        if fs >= len(hist):
            delta = max(q["slack"] for q in table[:r["i"] + 1])
            # several evaluations may share x; accept any candidate pair
            verdicts = [filt.judge(hist, r["penalty"], tol,
                                   (q["f"], q["v"]), delta) for q in cand]
            if not any(v[0] in ("ok", "ambiguous") for v in verdicts):
                vd = verdicts[-1]
                out.append(V("callback_point_not_best." + vd[1],
                             f"callback {r['i'] + 1}: {vd[2]}",
                             mechanism="nan_in_history" if any(
                                 math.isnan(f) or (v is not None and
                                                   math.isnan(v))
                                 for f, v in hist) else "plain",
                             k=r["i"] + 1, penalty=r["penalty"]))
                return out, info
        if prev is not None and prev != x.tobytes():
            info["best_changed"] += 1
        if x.tobytes() != r["x"].tobytes():
            info["best_not_last"] += 1
        prev = x.tobytes()
    res = rec.res
    if res is not None and res.get("status") == 3:
        stop = [e for e in rec.cb_events() if e.get("stop")]
        if stop:
            e = stop[-1]
            if e["x"].tobytes() != np.asarray(res.x, float).tobytes():
                out.append(V("stop_result_x",
                             "StopIteration at call k: res.x differs from the "
                             "point that call received"))
            if want_conv == "kw" and not feq(e["fun"], res.fun):
                out.append(V("stop_result_fun",
                             f"StopIteration: res.fun={res.fun} but the "
                             f"callback saw fun={e['fun']}"))
            if int(res.nfev) != e["k"]:
                out.append(V("stop_nfev",
                             f"StopIteration at call {e['k']} but "
                             f"nfev={res.nfev}",
                             mechanism="fun_none" if b.fun is None else "fun"))
    return out, info
