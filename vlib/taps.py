"""Taps: recording wrappers on cobyqa internals (installed by setattr from the
harness; the repository source is not edited).

Every tap looks up the current ``ctx.Run``; without one it calls straight
through.  Taps only *emit events carrying live references*; monitors that
listen must copy what they keep and must never mutate solver state, call user
functions or call state-writing solver routines (``TrustRegion.merit``,
``Problem.maxcv``...).  Activations are counted per event in ``run.counts`` so
a check can tell "held" from "never reached".
"""
import functools

import numpy as np

from . import ctx

_installed = {}


def _patch(owner, name, new):
    key = (owner, name)
    if key not in _installed:
        _installed[key] = owner.__dict__[name] if isinstance(owner, type) \
            else getattr(owner, name)
    setattr(owner, name, new)


def uninstall():
    for (owner, name), orig in list(_installed.items()):
        setattr(owner, name, orig)
    _installed.clear()


def installed():
    return bool(_installed)


def install():
    if _installed:
        return
    import cobyqa.main as cmain
    import cobyqa.problem as cproblem
    import cobyqa.framework as cframework
    import cobyqa.models as cmodels
    import cobyqa.subsolvers as csub

    Problem = cproblem.Problem
    TrustRegion = cframework.TrustRegion
    Models = cmodels.Models

    # ---------------------------------------------------------------- Problem
    orig_pinit = Problem.__init__

    @functools.wraps(orig_pinit)
    def pinit(self, *a, **k):
        orig_pinit(self, *a, **k)
        c = ctx.current()
        if c is not None:
            if c.pb is None:
                c.pb = self
            c.emit("problem.init", pb=self)

    _patch(Problem, "__init__", pinit)

    orig_pcall = Problem.__call__

    @functools.wraps(orig_pcall)
    def pcall(self, x, penalty=0.0, *a, **k):
        c = ctx.current()
        if c is None:
            return orig_pcall(self, x, penalty, *a, **k)
        xin = np.array(x, dtype=float, copy=True)
        rec = {
            "i": len(c.evals),
            "x": xin,
            "penalty": float(penalty),
            "kind": c.next_kind,
            "log0": len(c.log),
            "pb": self,
            "ret": None,
            "exc": None,
        }
        try:
            # centre the trial point was generated from (pure read); the
            # rounding of x_best + step is relative to |x_best|
            rec["x_best"] = np.array(c.tr.x_best, dtype=float, copy=True)
        except AttributeError:
            rec["x_best"] = None
        c.evals.append(rec)
        c.emit("eval.pre", pb=self, rec=rec)
        try:
            ret = orig_pcall(self, x, penalty, *a, **k)
        except BaseException as exc:  # noqa: BLE001 - recorded, re-raised
            rec["exc"] = type(exc).__name__
            rec["log1"] = len(c.log)
            c.emit("eval.exc", pb=self, rec=rec)
            raise
        rec["ret"] = (
            ret[0],
            np.array(ret[1], dtype=float, copy=True),
            np.array(ret[2], dtype=float, copy=True),
        )
        rec["log1"] = len(c.log)
        c.emit("eval.post", pb=self, rec=rec)
        return ret

    _patch(Problem, "__call__", pcall)

    # ------------------------------------------------------------------- main
    orig_build = cmain._build_result

    @functools.wraps(orig_build)
    def build_result(pb, penalty, success, status, n_iter, options, *a, **k):
        c = ctx.current()
        if c is not None:
            c.final = {
                "penalty": penalty,
                "success": success,
                "status": status,
                "n_iter": n_iter,
                "options": dict(options),
                "log0": len(c.log),
                "nevals0": len(c.evals),
            }
            c.next_kind = "final"
            c.emit("final", pb=pb, tr=c.tr, final=c.final)
        return orig_build(pb, penalty, success, status, n_iter, options, *a,
                          **k)

    _patch(cmain, "_build_result", build_result)

    orig_sdo = cmain._set_default_options

    @functools.wraps(orig_sdo)
    def set_default_options(options, n, *a, **k):
        out = orig_sdo(options, n, *a, **k)
        c = ctx.current()
        if c is not None:
            c.settings["options"] = dict(options)
            c.settings["n"] = n
            c.emit("settings.options")
        return out

    _patch(cmain, "_set_default_options", set_default_options)

    orig_sdc = cmain._set_default_constants

    @functools.wraps(orig_sdc)
    def set_default_constants(**kwargs):
        out = orig_sdc(**kwargs)
        c = ctx.current()
        if c is not None:
            c.settings["constants"] = dict(out)
            c.emit("settings.constants")
        return out

    _patch(cmain, "_set_default_constants", set_default_constants)

    # ------------------------------------------------------------ TrustRegion
    orig_tinit = TrustRegion.__init__

    @functools.wraps(orig_tinit)
    def tinit(self, pb, options, constants, *a, **k):
        c = ctx.current()
        if c is not None:
            c.tr = self
            c.settings["tr_options"] = dict(options)
            c.settings["tr_constants"] = dict(constants)
            c.emit("tr.init.pre", tr=self, options=options, constants=constants)
        orig_tinit(self, pb, options, constants, *a, **k)
        if c is not None:
            c.settings["tr_options_post"] = dict(options)
            c.emit("tr.init.post", tr=self, options=options)

    _patch(TrustRegion, "__init__", tinit)

    def step_tap(name, kind, pre_event):
        orig = TrustRegion.__dict__[name]

        @functools.wraps(orig)
        def wrapper(self, *a, **k):
            c = ctx.current()
            if c is not None:
                c.emit(pre_event, tr=self, args=a)
            out = orig(self, *a, **k)
            if c is not None:
                c.next_kind = kind
                c.emit(pre_event.replace(".pre", ".post"), tr=self, args=a,
                       out=out)
            return out

        _patch(TrustRegion, name, wrapper)

    step_tap("get_trust_region_step", "tr", "step.tr.pre")
    step_tap("get_geometry_step", "geo", "step.geo.pre")
    step_tap("get_second_order_correction_step", "soc", "step.soc.pre")

    def mut_tap(name):
        orig = TrustRegion.__dict__[name]

        @functools.wraps(orig)
        def wrapper(self, *a, **k):
            c = ctx.current()
            if c is not None:
                c.emit("tr.mut.pre", tr=self, what=name, args=a)
            out = orig(self, *a, **k)
            if c is not None:
                c.emit("tr.mut", tr=self, what=name, args=a, out=out)
            return out

        _patch(TrustRegion, name, wrapper)

    for _n in ("update_radius", "enhance_resolution", "increase_penalty",
               "decrease_penalty", "set_best_index", "shift_x_base",
               "set_multipliers"):
        mut_tap(_n)

    orig_rm = TrustRegion.__dict__["get_index_to_remove"]

    @functools.wraps(orig_rm)
    def get_index_to_remove(self, x_new=None, *a, **k):
        out = orig_rm(self, x_new, *a, **k)
        c = ctx.current()
        if c is not None:
            c.emit("tr.remove", tr=self, x_new=x_new, out=out)
        return out

    _patch(TrustRegion, "get_index_to_remove", get_index_to_remove)

    orig_radius = TrustRegion.__dict__["radius"]

    def radius_set(self, value):
        c = ctx.current()
        if c is not None:
            c.emit("tr.mut.pre", tr=self, what="radius.setter", args=(value,))
        orig_radius.fset(self, value)
        if c is not None:
            c.emit("tr.mut", tr=self, what="radius.setter", args=(value,),
                   out=None)

    _patch(TrustRegion, "radius",
           property(orig_radius.fget, radius_set, doc=orig_radius.__doc__))

    # ----------------------------------------------------------------- Models
    orig_minit = Models.__init__

    @functools.wraps(orig_minit)
    def minit(self, pb, options, *a, **k):
        c = ctx.current()
        try:
            orig_minit(self, pb, options, *a, **k)
        except BaseException as exc:  # noqa: BLE001
            if c is not None:
                c.emit("models.init.exc", models=self, exc=exc)
            raise
        if c is not None:
            c.emit("models.init", models=self, pb=pb)

    _patch(Models, "__init__", minit)

    def model_tap(name, event):
        orig = Models.__dict__[name]

        @functools.wraps(orig)
        def wrapper(self, *a, **k):
            c = ctx.current()
            if c is not None:
                c.emit(event + ".pre", models=self, args=a)
            try:
                out = orig(self, *a, **k)
            except BaseException as exc:  # noqa: BLE001
                if c is not None:
                    c.emit(event + ".exc", models=self, args=a, exc=exc)
                raise
            if c is not None:
                c.emit(event + ".post", models=self, args=a, out=out)
            return out

        _patch(Models, name, wrapper)

    model_tap("update_interpolation", "models.update")
    model_tap("shift_x_base", "models.shift")
    model_tap("reset_models", "models.reset")
    model_tap("determinants", "models.det")

    # ------------------------------------------------------------- subsolvers
    def sub_tap(name):
        orig = getattr(csub, name)

        @functools.wraps(orig)
        def wrapper(*a, **k):
            c = ctx.current()
            if c is None:
                return orig(*a, **k)
            c.emit("sub.pre", name=name, args=a, kwargs=k)
            out = orig(*a, **k)
            c.emit("sub", name=name, args=a, kwargs=k, out=out)
            return out

        wrapper.__wrapped_sub__ = orig
        _patch(cframework, name, wrapper)

    for _n in ("normal_byrd_omojokun", "tangential_byrd_omojokun",
               "constrained_tangential_byrd_omojokun", "cauchy_geometry",
               "spider_geometry"):
        sub_tap(_n)
