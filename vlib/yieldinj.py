"""Yield injection: sys.monitoring LINE events restricted to cobyqa's own
code objects; with a small (deterministic, counter-hashed) probability the
callback calls time.sleep(0), forcing a GIL hand-off between arbitrary
statements of the solver (e.g. inside build_system's check-then-use)."""
import sys
import time

from . import steps

_state = {"on": False, "n": 0, "yields": 0, "per_mille": 20, "codes": []}


def _on_line(code, line):
    n = _state["n"] = _state["n"] + 1          # racy on purpose: harmless
    if (n * 2654435761) % 1000 < _state["per_mille"]:
        _state["yields"] += 1
        time.sleep(0)


def enable(per_mille=20):
    if _state["on"]:
        return
    import cobyqa.main, cobyqa.problem, cobyqa.models, cobyqa.framework  # noqa
    import cobyqa.subsolvers.optim, cobyqa.subsolvers.geometry  # noqa
    mon = sys.monitoring
    tool = mon.DEBUGGER_ID
    mon.use_tool_id(tool, "verif-yield")
    mon.register_callback(tool, mon.events.LINE, _on_line)
    codes = []
    for name in ("cobyqa.main", "cobyqa.problem", "cobyqa.models",
                 "cobyqa.framework", "cobyqa.subsolvers.optim",
                 "cobyqa.subsolvers.geometry"):
        codes += steps._codes_of(sys.modules[name])
    for c in codes:
        mon.set_local_events(tool, c, mon.events.LINE)
    _state.update(on=True, codes=codes, per_mille=per_mille, n=0, yields=0)


def disable():
    if not _state["on"]:
        return
    mon = sys.monitoring
    tool = mon.DEBUGGER_ID
    for c in _state["codes"]:
        mon.set_local_events(tool, c, 0)
    mon.register_callback(tool, mon.events.LINE, None)
    mon.free_tool_id(tool)
    _state["on"] = False


def stats():
    return {"line_events": _state["n"], "yields": _state["yields"]}
