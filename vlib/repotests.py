"""Run the repository's own tests with the monitors armed and return what
they observed (used as one extra case by the C12, C15, C16 and C18 checks)."""
import json
import os
import subprocess
import sys
import tempfile

from . import boot
from .oracles import V


def run(prop):
    with tempfile.TemporaryDirectory(prefix="verif-rt-") as tmp:
        out = os.path.join(tmp, "taps.json")
        env = dict(os.environ, VERIF_TAPS_OUT=out,
                   PYTHONPATH=boot.VERIF + os.pathsep + boot.REPO,
                   PYTHONDONTWRITEBYTECODE="1")
        p = subprocess.run(
            [sys.executable, "-m", "pytest", "-q", "-p",
             "no:cacheprovider", "-p", "vlib.pytest_taps",
             os.path.join(boot.REPO, "cobyqa")],
            cwd=boot.REPO, env=env, capture_output=True, text=True,
            timeout=900)
        if not os.path.exists(out):
            raise RuntimeError("repository tests with taps produced no "
                               "report: " + p.stdout[-600:] + p.stderr[-600:])
        with open(out) as fh:
            res = json.load(fh)
    viols = [V(v["clause"], f"[repository test {v.get('test')}] "
               + str(v["msg"]), mechanism=(v.get("witness") or {}).get(
                   "mechanism"), test=v.get("test"))
             for v in res["viol"] if v.get("property") == prop]
    counts = {"repo_tests_with_monitors": res["tests"],
              "repo_tests_exit": p.returncode,
              "repo_tests_hook_errors": res["hook_errors"]}
    counts.update({"repo:" + k: v for k, v in res["counts"].items()})
    return viols, counts
