"""./check <ID> <quick|thorough>   |   ./check --replay <path>"""
import os
import sys

from . import runner


def main(argv):
    if len(argv) >= 2 and argv[0] == "--replay":
        return runner.replay(argv[1])
    if not argv:
        print(__doc__)
        return 2
    check_id = argv[0].upper()
    tier = argv[1] if len(argv) > 1 else os.environ.get("VERIF_TIER", "quick")
    seed = int(os.environ.get("VERIF_SEED", "0"))
    only = None
    if len(argv) > 3 and argv[2] == "--case":
        only = argv[3]
    return runner.run_check(check_id, tier, seed, only)


if __name__ == "__main__":
    sys.exit(main(sys.argv[1:]))
