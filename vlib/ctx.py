"""Per-run, per-thread monitoring context.

A ``Run`` collects everything the spies (user boundary) and taps (solver
internals) observe during ONE call of ``minimize``.  Contexts live on a
thread-local stack so nested and concurrent calls are kept apart; taps are
no-ops when the stack is empty.
"""
import threading
from collections import Counter

_tls = threading.local()


class Run:
    def __init__(self, label=None):
        self.label = label
        self.log = []          # user-boundary events, in order (spies)
        self.evals = []        # one dict per Problem.__call__ (taps)
        self.counts = Counter()  # activations per tap / event
        self.hooks = {}        # event name -> list of callables(run, **kw)
        self.pb = None         # first Problem constructed in this run
        self.final = None      # arguments of _build_result
        self.tr = None         # TrustRegion instance (if constructed)
        self.tr_trace = []     # (event, radius, resolution, penalty, best)
        self.next_kind = "init"  # label of the step that produces the next eval
        self.settings = {}     # completed options/constants seen by taps
        self.notes = []        # monitor verdict objects (violations etc.)
        self.data = {}         # free storage for monitors
        self.depth = 0
        self.hook_errors = []  # exceptions raised inside monitors

    def on(self, event, fn):
        self.hooks.setdefault(event, []).append(fn)

    def emit(self, event, **kw):
        self.counts[event] += 1
        for fn in self.hooks.get(event, ()):
            try:
                fn(self, **kw)
            except Exception:  # noqa: BLE001 - a monitor must never alter
                import traceback  # the run it observes; reported afterwards
                if len(self.hook_errors) < 3:
                    self.hook_errors.append(traceback.format_exc()[-1500:])

    def note(self, prop, clause, msg, **witness):
        self.notes.append(
            {"property": prop, "clause": clause, "msg": msg, "witness": witness}
        )


def _stack():
    st = getattr(_tls, "stack", None)
    if st is None:
        st = _tls.stack = []
    return st


def current():
    st = getattr(_tls, "stack", None)
    return st[-1] if st else None


def push(run):
    _stack().append(run)
    return run


def pop():
    return _stack().pop()


class active:
    """Context manager: ``with ctx.active(Run()) as r: minimize(...)``."""

    def __init__(self, run=None):
        self.run = run or Run()

    def __enter__(self):
        return push(self.run)

    def __exit__(self, *exc):
        pop()
        return False


class suspended:
    """Temporarily hide the stack (used by monitors that must call solver code
    on private copies without producing events)."""

    def __enter__(self):
        self.saved = getattr(_tls, "stack", None)
        _tls.stack = []

    def __exit__(self, *exc):
        _tls.stack = self.saved
        return False
