"""Direct-driven histories on a real cobyqa ``Models`` instance (used by the
C12, C13 and C14 checks): a real Problem around smooth random functions (so
that duplicate points carry consistent values), then a sequence of
operations {replace index k by a new point, shift the base, reset}."""
import warnings

import numpy as np


def make_functions(rng, n, mc_ub, mc_eq):
    m = 1 + mc_ub + mc_eq
    g = rng.standard_normal((m, n))
    q = rng.standard_normal((m, n, n))
    t = rng.standard_normal((m, n))
    scale = 10.0 ** rng.uniform(-2, 2, m) if rng.random() < 0.3 \
        else np.ones(m)

    def f(x, i):
        return float(scale[i] * (g[i] @ x + x @ q[i] @ x + np.sin(t[i] @ x)))

    return f


class History:
    """A real Problem + Models and the operations to drive it."""

    def __init__(self, rng, n=None, npt=None, mc_ub=None, mc_eq=None,
                 radius=1.0, box=None):
        from scipy.optimize import Bounds, NonlinearConstraint
        from cobyqa import models as M
        from cobyqa.problem import (ObjectiveFunction, BoundConstraints,
                                    LinearConstraints, NonlinearConstraints,
                                    Problem)
        from cobyqa.settings import Options
        self.rng = rng
        n = int(rng.integers(1, 6)) if n is None else n
        npt = int(rng.integers(n + 1, (n + 1) * (n + 2) // 2 + 1)) \
            if npt is None else npt
        mc_ub = int(rng.integers(0, 3)) if mc_ub is None else mc_ub
        mc_eq = int(rng.integers(0, 2)) if mc_eq is None else mc_eq
        self.n, self.npt, self.mc_ub, self.mc_eq = n, npt, mc_ub, mc_eq
        f = make_functions(rng, n, mc_ub, mc_eq)
        self.f = f
        cons = []
        for i in range(1, mc_ub + 1):
            cons.append(NonlinearConstraint(
                (lambda i: (lambda x: f(x, i)))(i), -np.inf, 0.0))
        for i in range(mc_ub + 1, mc_ub + mc_eq + 1):
            cons.append(NonlinearConstraint(
                (lambda i: (lambda x: f(x, i)))(i), 0.0, 0.0))
        x0 = rng.standard_normal(n)
        box = bool(rng.random() < 0.25) if box is None else box
        xl = np.full(n, -np.inf)
        xu = np.full(n, np.inf)
        if box:
            # finite bounds with x0 on / near some of them: the initial
            # interpolation set is then NOT symmetric about the base point
            for i in range(n):
                dl = float(rng.choice([0.0, 0.25, 0.6, 3.0, np.inf]))
                du = float(rng.choice([0.0, 0.25, 0.6, 3.0, np.inf]))
                if dl + du < 2.2:
                    du = 2.2 - dl + float(rng.random())
                xl[i] = x0[i] - dl * float(radius)
                xu[i] = x0[i] + du * float(radius)
        self.box = box
        self.pb = Problem(
            ObjectiveFunction(lambda x: f(x, 0), False, False), x0,
            BoundConstraints(Bounds(xl, xu)),
            LinearConstraints([], n, False),
            NonlinearConstraints(cons, False, False), None, 1e-8, False,
            False, 1, 10**9, False)
        self.opts = {Options.DEBUG.value: False,
                     Options.RHOBEG.value: float(radius),
                     Options.RHOEND.value: 1e-6 * float(radius),
                     Options.NPT.value: npt,
                     Options.MAX_EVAL.value: 10**6,
                     Options.TARGET.value: -np.inf,
                     Options.FEASIBILITY_TOL.value: 1e-8}
        with warnings.catch_warnings():
            warnings.simplefilter("ignore")
            self.models = M.Models(self.pb, self.opts, 0.0)
        self.radius = float(radius)
        self.ops = []

    @property
    def itp(self):
        return self.models.interpolation

    def new_point(self, kind=None):
        rng = self.rng
        itp = self.itp
        kind = kind or str(rng.choice(
            ["near", "near", "near", "far", "duplicate", "collinear",
             "tiny"], p=[0.3, 0.2, 0.2, 0.1, 0.07, 0.07, 0.06]))
        j = int(rng.integers(self.npt))
        if kind == "duplicate":
            x = itp.point(j).copy()
        elif kind == "collinear":
            i = int(rng.integers(self.npt))
            x = itp.point(i) + rng.uniform(-1, 2) * (itp.point(j)
                                                      - itp.point(i))
        elif kind == "tiny":
            x = itp.point(j) + rng.standard_normal(self.n) * self.radius \
                * 10.0 ** rng.uniform(-9, -4)
        elif kind == "far":
            x = itp.x_base + rng.standard_normal(self.n) * self.radius \
                * 10.0 ** rng.uniform(0.3, 1.0)
        else:
            x = itp.x_base + itp.xpt[:, j] * rng.uniform(0, 1) \
                + rng.standard_normal(self.n) * self.radius \
                * 10.0 ** rng.uniform(-2, 0.5)
        return kind, np.asarray(x, dtype=float)

    def choose_index(self, x_new, how=None):
        rng = self.rng
        how = how or str(rng.choice(["random", "max_det", "min_det"],
                                    p=[0.6, 0.25, 0.15]))
        if how == "random":
            return how, int(rng.integers(self.npt))
        try:
            with warnings.catch_warnings():
                warnings.simplefilter("ignore")
                sig = np.abs(self.models.determinants(x_new))
        except np.linalg.LinAlgError:
            return "random", int(rng.integers(self.npt))
        if not np.all(np.isfinite(sig)):
            return "random", int(rng.integers(self.npt))
        return how, int(np.argmax(sig) if how == "max_det"
                        else np.argmin(sig))

    def step(self, op=None):
        """Perform one random operation; returns a description dict or None
        when the solver raised LinAlgError (history ends)."""
        rng = self.rng
        u = rng.random()
        op = op or ("shift" if u < 0.1 else "reset" if u < 0.16
                    else "update")
        m = self.models
        try:
            with warnings.catch_warnings():
                warnings.simplefilter("ignore")
                if op == "shift":
                    j = int(rng.integers(self.npt))
                    new_base = self.itp.point(j).copy()
                    if rng.random() < 0.4:
                        # any point of the region, not an interpolation point
                        new_base = self.itp.x_base + rng.standard_normal(
                            self.n) * self.radius
                        j = -1
                    m.shift_x_base(new_base, self.opts)
                    d = {"op": "shift", "to": j}
                elif op == "reset":
                    m.reset_models()
                    d = {"op": "reset"}
                else:
                    kind, x_new = self.new_point()
                    how, k = self.choose_index(x_new)
                    fv, cub, ceq = self.pb(x_new)
                    ill = m.update_interpolation(k, x_new, fv, cub, ceq)
                    d = {"op": "update", "k": k, "kind": kind, "index": how,
                         "ill": bool(ill), "x_new": x_new, "vals": (fv, cub,
                                                                    ceq)}
        except np.linalg.LinAlgError:
            return None
        self.ops.append(d["op"] + (":" + d.get("kind", "") if d["op"] ==
                                   "update" else ""))
        return d
