"""Subproblem-solver contracts (properties C15 and C16).

The postconditions are named functions over (inputs, result).  They are
attached (a) with ``icontract.ensure`` to the five public subsolvers for the
direct hostile fuzz and (b) to the ``sub`` tap event for every subproblem the
solver itself poses during real runs.  Conditions *record* verdicts in a
collector and return True, so a violation never alters the run it observes.

Three-zone verdicts (DESIGN 3.6): exact where the statement is exact (bounds);
for rounding-limited quantities ``held`` <= 1e-9 (calibrated: largest value
seen on 3.2e5 fuzz inputs is 4.1e-11), ``violation`` > 1e-6, gray between.
"""
import numpy as np

from .refs import cauchy as refc

EPS = np.finfo(float).eps
TINY = np.finfo(float).tiny
HELD = 1e-9
BAD = 1e-6

NAMES = ("tangential_byrd_omojokun", "constrained_tangential_byrd_omojokun",
         "normal_byrd_omojokun", "cauchy_geometry", "spider_geometry")


class Collector:
    def __init__(self):
        self.viol = []      # (prop, clause, msg, witness)
        self.gray = 0
        self.checked = 0
        self.worst = {}
        self.tags = set()

    def zone(self, prop, clause, value, msg, **w):
        """value: relative excess; <=HELD held, >BAD violation."""
        self.worst[clause] = max(self.worst.get(clause, 0.0), float(value))
        if not np.isfinite(value) or value > BAD:
            self.viol.append((prop, clause, msg, w))
        elif value > HELD:
            self.gray += 1

    def bad(self, prop, clause, msg, **w):
        self.viol.append((prop, clause, msg, w))


_current = [None]


def collecting(col):
    _current[0] = col
    return col


def _col():
    return _current[0]


def _f(a):
    return np.asarray(a, dtype=float)


# ------------------------------------------------------------- admissibility
def admissible(name, s, xl, xu, delta, aub=None, bub=None, aeq=None):
    col = _col()
    if col is None:
        return True
    col.checked += 1
    s = _f(s)
    if s.shape != _f(xl).shape or not np.all(np.isfinite(s)):
        col.bad("C15", "finite", f"{name}: step {s.tolist()} not finite / "
                                 f"wrong shape", mechanism=name)
        return True
    lo = np.minimum(_f(xl), 0.0)
    hi = np.maximum(_f(xu), 0.0)
    if not (np.all(s >= lo) and np.all(s <= hi)):
        exc = float(np.max(np.maximum(lo - s, s - hi)))
        col.bad("C15", "bounds",
                f"{name}: step leaves the given bounds by {exc:.3g} "
                f"(s={s.tolist()}, xl={lo.tolist()}, xu={hi.tolist()})",
                mechanism=name, excess=exc)
    if np.any(s == lo) or np.any(s == hi):
        col.tags.add("on_bound")
    nrm = float(np.linalg.norm(s))
    if delta > 0 and np.isfinite(delta):
        rel = nrm / delta - 1.0
        if rel > -1e-12:
            col.tags.add("on_ball")
        col.zone("C15", "radius", max(rel, 0.0),
                 f"{name}: |s|={nrm!r} exceeds the radius {delta!r} by "
                 f"{rel:.3g} (relative)", mechanism=name, rel=rel)
    # The quantifier of C15 spans 12 decades of magnitudes.  The normals of
    # the constraints handled together (rows of A_ub / A_eq and the unit
    # normals of the bounds) must therefore have norms within 1e-12..1e12;
    # subproblems beyond that (models built from barrier-clipped 2**100
    # values) are counted and only judged for the exact clauses above.
    if not in_domain(aub, aeq):
        col.tags.add("beyond_12_decades")
        return True
    if aub is not None and np.size(bub):
        aub = _f(aub)
        bub = _f(bub)
        feas0 = bub >= 0.0
        if np.any(feas0):
            res = aub[feas0] @ s - bub[feas0]
            # components of s carry absolute errors of order eps*|s| (s is a
            # product with an orthonormal basis), hence |a_i| |s|, not |a_i|'|s|
            mag = np.linalg.norm(aub[feas0], axis=1) * nrm + np.abs(bub[feas0])
            with np.errstate(invalid="ignore", divide="ignore"):
                rel = np.where(mag > 0, res / np.where(mag > 0, mag, 1.0), 0.0)
            worst = float(np.max(rel, initial=0.0))
            col.zone("C15", "inequality", max(worst, 0.0),
                     f"{name}: an inequality feasible at the origin is "
                     f"violated at s by {worst:.3g} (relative to |a_i||s|+|b_i|)",
                     mechanism=name, rel=worst)
    if aeq is not None and np.size(aeq):
        aeq = _f(aeq)
        res = np.abs(aeq @ s)
        mag = np.linalg.norm(aeq, axis=1) * nrm
        with np.errstate(invalid="ignore", divide="ignore"):
            rel = np.where(mag > 0, res / np.where(mag > 0, mag, 1.0), 0.0)
        worst = float(np.max(rel, initial=0.0))
        col.zone("C15", "equality", worst,
                 f"{name}: step leaves the null space of the equality "
                 f"constraints by {worst:.3g} (relative to |a_i||s|)",
                 mechanism=name, rel=worst)
    return True


def in_domain(*mats):
    """Row norms of the constraint matrices within 1e-12..1e12 (the unit
    bound normals are handled together with them)."""
    rows = [np.linalg.norm(_f(a), axis=1) for a in mats
            if a is not None and np.size(a)]
    if not rows:
        return True
    rn = np.concatenate(rows)
    rn = rn[rn > 0]
    return not (rn.size and (np.max(rn) > 1e12 or np.min(rn) < 1e-12))


# ---------------------------------------------------------------- "no worse"
def _qmag(g, hs, s):
    return float(np.abs(g) @ np.abs(s) + 0.5 * np.abs(s) @ np.abs(hs))


def _norm_mag(g, hess_prod, s):
    """Norm-wise magnitude |g||s| + 0.5|H|_F|s|^2 of the quadratic at s."""
    n = s.size
    try:
        h = np.array([_f(hess_prod(e)) for e in np.eye(n)]).T
        hn = float(np.linalg.norm(h)) if np.all(np.isfinite(h)) else np.inf
    except Exception:  # noqa: BLE001
        hn = 0.0
    ns = float(np.linalg.norm(s))
    return float(np.linalg.norm(g)) * ns + 0.5 * hn * ns * ns


def _hp_noise(hess_prod, vecs):
    """Absolute uncertainty of 0.5*v'H v as evaluated through ``hess_prod``.

    In real runs hess_prod is the Lagrangian model's implicit+explicit
    Hessian product, in which terms of size 1e30 (models of barrier-clipped
    values) cancel: hess_prod(v) then differs from the product with the
    Hessian materialised from unit vectors by far more than eps*|Hv|.  That
    discrepancy is a measured estimate of the evaluation noise."""
    n = vecs[0].size
    try:
        h = np.array([_f(hess_prod(e)) for e in np.eye(n)]).T
    except Exception:  # noqa: BLE001
        return 0.0
    if not np.all(np.isfinite(h)):
        return np.inf
    noise = 0.0
    for v in vecs:
        hv = _f(hess_prod(v))
        noise += 0.5 * float(np.abs(v) @ np.abs(hv - h @ v))
        noise += 0.5 * 8 * EPS * float(np.abs(v) @ (np.abs(h) @ np.abs(v)))
    return noise


def no_increase(name, s, g, hess_prod):
    col = _col()
    if col is None:
        return True
    s = _f(s)
    g = _f(g)
    if not np.all(np.isfinite(s)):
        return True
    hs = _f(hess_prod(s))
    q = float(g @ s + 0.5 * s @ hs)
    mag = _qmag(g, hs, s)
    if q > 0:
        q = max(q - 10.0 * _hp_noise(hess_prod, [s]), 0.0)
    if q > 0 and name == "constrained_tangential_byrd_omojokun":
        # This solver projects the gradient with orthogonal (QR) bases, whose
        # rounding errors are norm-wise: a component of g that is 16 decades
        # above the others (models of barrier-clipped values next to a bound
        # 1e-8 away) leaks eps*|g| into the projected gradient even when the
        # step has an exact zero there.  That is rounding, not an increase.
        q = max(q - 16.0 * EPS * s.size * _norm_mag(g, hess_prod, s), 0.0)
    rel = q / mag if mag > 0 else (0.0 if q <= 0 else np.inf)
    col.zone("C16", "model_increase", max(rel, 0.0),
             f"{name}: q(s)={q!r} > 0 = q(0) (relative {rel:.3g})",
             mechanism=name, q=q)
    return True


def violation_lin(aub, bub, aeq, beq, s):
    r1 = np.maximum(_f(aub) @ s - _f(bub), 0.0)
    r2 = _f(aeq) @ s - _f(beq)
    return 0.5 * (float(r1 @ r1) + float(r2 @ r2))


def normal_no_worse(s, aub, bub, aeq, beq):
    col = _col()
    if col is None:
        return True
    s = _f(s)
    if not np.all(np.isfinite(s)):
        return True
    v0 = violation_lin(aub, bub, aeq, beq, np.zeros_like(s))
    v1 = violation_lin(aub, bub, aeq, beq, s)
    if v0 > 0 and np.isfinite(v0):
        rel = (v1 - v0) / v0
    else:
        rel = 0.0 if v1 <= 64 * EPS * (
            float(np.sum((np.abs(_f(aub)) @ np.abs(s)) ** 2)) +
            float(np.sum((np.abs(_f(aeq)) @ np.abs(s)) ** 2))) else np.inf
    if v1 < v0:
        col.tags.add("normal_decreased")
    col.zone("C16", "normal_increase", max(rel, 0.0),
             f"normal_byrd_omojokun: linearised violation {v1!r} at s exceeds "
             f"{v0!r} at the origin (relative {rel:.3g})",
             mechanism="normal_byrd_omojokun")
    return True


def cauchy_decrease(s, g, hess_prod, xl, xu, delta):
    """Bound-constrained tangential step: q(s) <= q(s_C) + rounding."""
    col = _col()
    if col is None:
        return True
    s = _f(s)
    g = _f(g)
    if not (np.all(np.isfinite(s)) and np.all(np.isfinite(g))):
        return True
    sc, nd = refc.cauchy_step(g, hess_prod, _f(xl), _f(xu), delta)
    if not np.any(sc != 0.0):
        return True
    hs = _f(hess_prod(s))
    hc = _f(hess_prod(sc))
    q = float(g @ s + 0.5 * s @ hs)
    qc = float(g @ sc + 0.5 * sc @ hc)
    if not (qc < 0):
        return True
    col.tags.add("cauchy_nontrivial")
    mag = _qmag(g, hs, s) + _qmag(g, hc, sc)
    gap = q - qc
    if gap > HELD * mag:
        gap = max(gap - 10.0 * _hp_noise(hess_prod, [s, sc]), 0.0)
    rel = gap / mag if mag > 0 else 0.0
    if rel > BAD:
        n = g.size
        lo = np.minimum(_f(xl), 0.0)
        hi = np.maximum(_f(xu), 0.0)
        free = ((lo < 0.0) | (g < 0.0)) & ((hi > 0.0) | (g > 0.0))
        floor = float(g[free] @ g[free]) <= 10.0 * EPS * n * max(
            1.0, float(np.linalg.norm(g)))
        mech = "tcg_absolute_floor" if (floor and not np.any(s != 0.0)) \
            else "tangential_byrd_omojokun"
        col.bad("C16", "cauchy_decrease",
                f"tangential_byrd_omojokun: q(s)={q!r} is above the Cauchy "
                f"value q(s_C)={qc!r} (gap {rel:.3g} relative); "
                f"|g_free|^2={float(g[free] @ g[free]):.3g}",
                mechanism=mech, q=q, qc=qc, g=g, s=s, sc=sc, delta=delta)
    elif rel > HELD:
        col.gray += 1
    # Linear model (H = 0 exactly): the model decreases monotonically along
    # the whole projected-gradient PATH, whose end point is the generalised
    # Cauchy point; the active-set truncated CG follows exactly that path.
    n = g.size
    if all(not np.any(_f(hess_prod(e))) for e in np.eye(n)):
        sp = refc.path_end_linear(g, _f(xl), _f(xu), delta)
        qp = float(g @ sp)
        if qp < 0:
            col.tags.add("cauchy_path_linear")
            mag2 = float(np.abs(g) @ np.abs(s) + np.abs(g) @ np.abs(sp))
            rel2 = (q - qp) / mag2 if mag2 > 0 else 0.0
            # the solver's absolute stopping floor applied after a restart
            # on a bound (same mechanism as at the origin): the part of the
            # gradient that is still free at s is below the floor
            lo = np.minimum(_f(xl), 0.0)
            hi = np.maximum(_f(xu), 0.0)
            free_s = ((s > lo) | (g < 0.0)) & ((s < hi) | (g > 0.0))
            floor = float(g[free_s] @ g[free_s]) <= 10.0 * EPS * n * max(
                1.0, float(np.linalg.norm(g)))
            col.zone("C16", "cauchy_path_decrease", max(rel2, 0.0),
                     f"tangential_byrd_omojokun (linear model): q(s)={q!r} "
                     f"is above the value {qp!r} at the end of the "
                     f"projected-gradient path (gap {rel2:.3g} relative); "
                     f"|g_free(s)|^2={float(g[free_s] @ g[free_s]):.3g}",
                     mechanism="tcg_absolute_floor" if floor
                     else "tangential_byrd_omojokun", g=g, s=s, sp=sp,
                     delta=delta)
    return True


def geometry_no_worse(name, s, const, g, curv):
    col = _col()
    if col is None:
        return True
    s = _f(s)
    if not np.all(np.isfinite(s)):
        return True
    g = _f(g)
    c = float(curv(s))
    q = const + float(g @ s) + 0.5 * c
    mag = abs(const) + float(np.abs(g) @ np.abs(s)) + 0.5 * abs(c)
    rel = (abs(const) - abs(q)) / mag if mag > 0 else 0.0
    if const != 0.0:
        col.tags.add("const_nonzero")
    col.zone("C16", "geometry_decrease" if const == 0.0
             else "geometry_decrease_const", max(rel, 0.0),
             f"{name}: |q(s)|={abs(q)!r} < |q(0)|={abs(const)!r}",
             mechanism=name + (":const" if const != 0.0 else ""))
    return True


def cauchy_geometry_improves(s, const, g, curv, xl, xu, delta):
    """If a feasible first-order improving direction exists, |q| must grow
    strictly (const = 0: decided on |q(s)|; const != 0: the gain may be
    below one ulp of |const|, only "the step is not the origin" is decided)."""
    col = _col()
    if col is None:
        return True
    s = _f(s)
    g = _f(g)
    if not (np.all(np.isfinite(g)) and np.all(np.isfinite(s))):
        return True
    lo = np.minimum(_f(xl), 0.0)
    hi = np.maximum(_f(xu), 0.0)
    if const != 0.0:
        # const != 0: a strict gain may be far below one ulp of |const| (tiny
        # gradient, curvature of the other sign along the solver's path), so
        # |q(s)| computed in floating point cannot decide the clause.  What
        # CAN be decided: when a feasible direction exists along which |q|
        # grows to first order (room on the side sign(const)*g_i of some
        # variable), the step returned is not the origin.
        if not np.isfinite(const):
            return True
        sg = float(np.sign(const)) * g
        room = np.where(sg > 0, np.minimum(hi, delta),
                        np.where(sg < 0, np.minimum(-lo, delta), 0.0))
        gain = np.abs(g) * room
        scale = float(np.max(np.abs(g), initial=0.0)) * delta
        if not (np.max(gain, initial=0.0) > 1e-6 * scale and scale > 1e-280):
            return True
        col.tags.add("improving_direction_exists_const")
        if not np.any(s != 0.0):
            col.bad("C16", "cauchy_geometry_no_progress",
                    f"cauchy_geometry returned the origin (|q| = |const| = "
                    f"{abs(const)!r}) although g={g.tolist()} has room on the "
                    f"side that increases |q| in the box [{lo.tolist()}, "
                    f"{hi.tolist()}] within delta={delta!r}",
                    mechanism="cauchy_geometry_zero_step:const",
                    g=g, xl=lo, xu=hi, delta=delta, s=s, const=const)
        return True
    room_up = np.minimum(hi, delta)
    room_dn = np.minimum(-lo, delta)
    gain = np.abs(g) * np.maximum(room_up, room_dn)
    scale = float(np.max(np.abs(g), initial=0.0)) * delta
    if not (np.max(gain, initial=0.0) > 1e-6 * scale and scale > 1e-280):
        return True
    col.tags.add("improving_direction_exists")
    c = float(curv(s))
    q = float(g @ s) + 0.5 * c
    if not abs(q) > 0.0:
        fits = bool(np.linalg.norm(np.where(g > 0, hi, lo)) <= delta
                    or np.linalg.norm(np.where(g > 0, lo, hi)) <= delta)
        col.bad("C16", "cauchy_geometry_no_progress",
                f"cauchy_geometry returned a step with |q(s)|={abs(q)!r} "
                f"although g={g.tolist()} has room in the box "
                f"[{lo.tolist()}, {hi.tolist()}] within delta={delta!r}",
                mechanism="cauchy_geometry_zero_step" + (
                    ":box_in_ball" if fits else ""),
                g=g, xl=lo, xu=hi, delta=delta, s=s)
    return True


# ------------------------------------------------ dispatch for a recorded call
def check_call(name, args, kwargs, out):
    """Apply every C15/C16 postcondition to one recorded subsolver call."""
    if name == "tangential_byrd_omojokun":
        g, hp, xl, xu, delta = args[:5]
        admissible(name, out, xl, xu, delta)
        no_increase(name, out, g, hp)
        cauchy_decrease(out, g, hp, xl, xu, delta)
    elif name == "constrained_tangential_byrd_omojokun":
        g, hp, xl, xu, aub, bub, aeq, delta = args[:8]
        admissible(name, out, xl, xu, delta, aub, bub, aeq)
        if in_domain(aub, aeq):
            no_increase(name, out, g, hp)
    elif name == "normal_byrd_omojokun":
        aub, bub, aeq, beq, xl, xu, delta = args[:7]
        admissible(name, out, xl, xu, delta)
        if in_domain(aub, aeq):
            normal_no_worse(out, aub, bub, aeq, beq)
        elif _col() is not None:
            _col().tags.add("beyond_12_decades")
    elif name == "cauchy_geometry":
        const, g, curv, xl, xu, delta = args[:6]
        admissible(name, out, xl, xu, delta)
        geometry_no_worse(name, out, const, g, curv)
        cauchy_geometry_improves(out, const, g, curv, xl, xu, delta)
    elif name == "spider_geometry":
        const, g, curv, xpt, xl, xu, delta = args[:7]
        admissible(name, out, xl, xu, delta)
        geometry_no_worse(name, out, const, g, curv)


# ------------------------------------------------------ icontract decoration
class ContractBroken(Exception):
    pass


def contracted():
    """The five real subsolvers decorated with icontract postconditions
    (named conditions, explicit error=; they record and return True)."""
    import icontract
    import cobyqa.subsolvers as S

    def post_tan(grad, hess_prod, xl, xu, delta, result):
        check_call("tangential_byrd_omojokun",
                   (grad, hess_prod, xl, xu, delta), {}, result)
        return True

    def post_ctan(grad, hess_prod, xl, xu, aub, bub, aeq, delta, result):
        check_call("constrained_tangential_byrd_omojokun",
                   (grad, hess_prod, xl, xu, aub, bub, aeq, delta), {},
                   result)
        return True

    def post_nor(aub, bub, aeq, beq, xl, xu, delta, result):
        check_call("normal_byrd_omojokun",
                   (aub, bub, aeq, beq, xl, xu, delta), {}, result)
        return True

    def post_cg(const, grad, curv, xl, xu, delta, result):
        check_call("cauchy_geometry", (const, grad, curv, xl, xu, delta), {},
                   result)
        return True

    def post_sp(const, grad, curv, xpt, xl, xu, delta, result):
        check_call("spider_geometry",
                   (const, grad, curv, xpt, xl, xu, delta), {}, result)
        return True

    posts = {"tangential_byrd_omojokun": post_tan,
             "constrained_tangential_byrd_omojokun": post_ctan,
             "normal_byrd_omojokun": post_nor,
             "cauchy_geometry": post_cg, "spider_geometry": post_sp}
    out = {}
    for name, post in posts.items():
        fn = getattr(S, name)
        out[name] = icontract.ensure(post, error=ContractBroken)(fn)
    return out


# ------------------------------------------------------------------- fuzzing
def fuzz_inputs(rng):
    """One hostile subproblem instance (n = 1..6, magnitudes over 12 decades,
    degeneracies).  Returns a dict of arrays plus the degeneracy tags."""
    n = int(rng.integers(1, 7))
    tags = []

    def mag():
        if rng.random() < 0.5:
            return 10.0 ** float(rng.integers(-6, 7))
        return 1.0

    scale, gs, hs = mag(), mag(), mag()
    g = rng.standard_normal(n) * gs
    r = rng.random()
    if r < 0.08:
        g[:] = 0.0
        tags.append("g0")
    elif r < 0.25:
        g[int(rng.integers(n))] = 0.0
        tags.append("gi0")
    r = rng.random()
    b = rng.standard_normal((n, n))
    if r < 0.25:
        h = b @ b.T
        tags.append("spd")
    elif r < 0.5:
        h = 0.5 * (b + b.T)
        tags.append("indef")
    elif r < 0.6:
        h = np.zeros((n, n))
        tags.append("h0")
    elif r < 0.8:
        v = rng.standard_normal(n)
        h = np.outer(v, v) * float(rng.choice([-1.0, 1.0]))
        tags.append("rank1")
    else:
        h = -b @ b.T
        tags.append("negdef")
    h = h * hs
    xl = -rng.uniform(0, 2, n) * scale
    xu = rng.uniform(0, 2, n) * scale
    for i in range(n):
        r = rng.random()
        if r < 0.15:
            xl[i] = 0.0
            tags.append("act")
        elif r < 0.3:
            xl[i] = -np.inf
            tags.append("inf")
        r = rng.random()
        if r < 0.15:
            xu[i] = 0.0
            tags.append("act")
        elif r < 0.3:
            xu[i] = np.inf
            tags.append("inf")
    r = rng.random()
    if r < 0.25:
        # box fits inside the ball
        fin = np.concatenate([np.abs(xl[np.isfinite(xl)]),
                              np.abs(xu[np.isfinite(xu)])])
        delta = float(2.0 * np.sqrt(n) * (np.max(fin) if fin.size else scale)
                      + scale)
        if np.all(np.isfinite(xl)) and np.all(np.isfinite(xu)):
            tags.append("box_in_ball")
    else:
        delta = float(scale * 10.0 ** rng.uniform(-2, 2))
    m = int(rng.integers(0, 4))
    me = int(rng.integers(0, min(n, 3)))
    aub = rng.standard_normal((m, n))
    bub = np.abs(rng.standard_normal(m)) * scale
    if m and rng.random() < 0.3:
        bub[int(rng.integers(m))] = 0.0
        tags.append("b0")
    if m > 1 and rng.random() < 0.2:
        aub[1] = aub[0] * rng.uniform(0.5, 2)
        tags.append("dup")
    if m and rng.random() < 0.1:
        aub[int(rng.integers(m))] = 0.0
        tags.append("row0")
    aeq = rng.standard_normal((me, n))
    if me > 1 and rng.random() < 0.2:
        aeq[1] = aeq[0]
        tags.append("dupeq")
    if n >= 2 and rng.random() < 0.25:
        # structured family: one-dimensional null space, gradient almost
        # normal to it (near-stationary point of the constrained problem),
        # projected gradient just above the solvers' absolute stopping floor
        tags.append("near_stationary_1d")
        me = n - 1
        aeq = rng.standard_normal((me, n))
        qq, _ = np.linalg.qr(aeq.T, mode="complete")
        big = 10.0 ** rng.uniform(3, 6)
        gn = aeq.T @ rng.standard_normal(me) * big
        floor = np.sqrt(10.0 * EPS * n * max(1.0, np.linalg.norm(gn)))
        g = gn + qq[:, -1] * floor * 10.0 ** rng.uniform(0.05, 1.0) \
            * float(rng.choice([-1.0, 1.0]))
        if rng.random() < 0.5:
            h = h * 10.0 ** rng.uniform(-8, -2)
        xl = np.full(n, -np.inf)
        xu = np.full(n, np.inf)
        m = 0
        aub = np.zeros((0, n))
        bub = np.zeros(0)
        delta = float(10.0 ** rng.uniform(-2, 1))
    if n >= 2 and rng.random() < 0.08:
        # exact floating-point ties: integer data for which the first
        # steepest-descent step reaches the trust-region boundary and two or
        # more bounds simultaneously (tie-aware selection of active bounds)
        tags.append("exact_ties")
        base = [(2, 2, 1), (1, 2, 2), (2, 1, 2), (4, 4, 2), (4, 4, 7),
                (6, 3, 2), (2, 3, 6), (1, 4, 8), (3, 4, 0), (3, 4, 12),
                (1, 1, 0)][int(rng.integers(11))]
        if n < 3:
            base = [(3, 4), (4, 3), (1, 1), (2, 2)][int(rng.integers(4))]
        gv = np.zeros(n)
        gv[:len(base)] = base[:n]
        sg = rng.choice([-1.0, 1.0], n)
        mult = float(rng.choice([0.5, 1.0, 2.0]))
        g = gv * sg * mult
        nrm = float(np.linalg.norm(g))
        alpha = float(rng.choice([0.5, 1.0, 2.0]))
        delta = alpha * nrm
        xl = np.full(n, -np.inf)
        xu = np.full(n, np.inf)
        step_end = -alpha * g          # where steepest descent meets the ball
        for i in range(n):
            if g[i] != 0 and rng.random() < 0.7:
                if step_end[i] < 0:
                    xl[i] = step_end[i]
                else:
                    xu[i] = step_end[i]
        hd = rng.choice([0.0, 0.0, -1.0, 1.0, -2.0], n)
        if rng.random() < 0.5:
            hd[:] = 0.0
        h = np.diag(hd)
        if n >= 3 and rng.random() < 0.5:
            # variant: two or more bounds are reached at exactly the same
            # step size INSIDE the ball, while other variables stay free (the
            # second tied bound enters the working set through a zero step)
            tags.append("bound_ties_inside")
            g = rng.choice([-2.0, -1.0, -0.5, 0.5, 1.0, 2.0], n)
            t = float(rng.choice([0.125, 0.25, 0.5]))
            xl = np.full(n, -np.inf)
            xu = np.full(n, np.inf)
            tied = rng.choice(n, size=int(rng.integers(2, n)), replace=False)
            for i in tied:
                if g[i] < 0:
                    xu[i] = t * abs(g[i])
                else:
                    xl[i] = -t * abs(g[i])
            delta = float(rng.choice([1.0, 2.0, 4.0])) * t * \
                float(np.linalg.norm(g)) * 2.0
            if rng.random() < 0.7:
                h = np.zeros((n, n))
    if n >= 2 and rng.random() < 0.1:
        # structured family: the Hessian only acts (with negative curvature)
        # on directions orthogonal to the gradient, as the rank-deficient
        # least-Frobenius-norm models of real runs do.  The truncated CG step
        # -delta*g/|g| and the gradient there stay collinear up to rounding
        # (or up to a tiny angle), while a LARGE rotation on the boundary is
        # worthwhile: the rotation direction is built from a difference made
        # of rounding errors.
        tags.append("orth_negcurv")
        g = rng.standard_normal(n) * gs
        k = int(rng.integers(1, n))
        vv = rng.standard_normal((n, k))
        vv -= np.outer(g, g @ vv) / (g @ g)
        if rng.random() < 0.5:
            vv += 10.0 ** rng.uniform(-12, -3) * rng.standard_normal((n, k))
        delta = float(scale * 10.0 ** rng.uniform(-6, 6))
        hh = vv @ vv.T
        h = -hh / np.linalg.norm(hh, 2) * np.linalg.norm(g) / delta \
            * 10.0 ** rng.uniform(-2, 2)
        xl = np.full(n, -np.inf)
        xu = np.full(n, np.inf)
        if rng.random() < 0.3:
            xu[int(rng.integers(n))] = delta * 10.0 ** rng.uniform(0, 1)
        m = 0
        aub = np.zeros((0, n))
        bub = np.zeros(0)
        if rng.random() < 0.7:
            me = 0
            aeq = np.zeros((0, n))
    if n >= 2 and rng.random() < 0.05:
        # structured family: the first CG move (along u = (0.6, 0.8), with
        # non-positive curvature) hits a bound a few ulps BEFORE the
        # trust-region boundary; the restart direction points back inside
        # (gradient component flipped by an off-diagonal Hessian entry) with
        # zero curvature, so the step length is decided by the root of the
        # trust-region equation from a point within 1e-15 of the boundary
        tags.append("near_boundary_restart")
        gam = float(rng.choice([0.5, 1.0, 2.0, 1e-3, 1e3]))
        delta = float(scale * rng.choice([0.5, 1.0, 2.0]))
        u = np.zeros(n)
        i0, i1 = (0, 1) if rng.random() < 0.5 else (1, 0)
        u[i0], u[i1] = 0.6, 0.8
        g = -gam * u
        hh = 1.34 * gam / delta * rng.uniform(1.5, 3.0)
        aa = 2.67 * hh * rng.uniform(1.2, 2.0)
        h = np.zeros((n, n))
        h[i0, i0] = -aa
        h[i0, i1] = h[i1, i0] = hh
        xl = np.full(n, -np.inf)
        xu = np.full(n, np.inf)
        xu[i0] = 0.6 * delta * (1.0 - int(rng.integers(1, 9)) * EPS)
        m = 0
        aub = np.zeros((0, n))
        bub = np.zeros(0)
        me = 0
        aeq = np.zeros((0, n))
    if n >= 2 and rng.random() < 0.05:
        # structured family: exact floating-point tie between the step length
        # to a linear inequality and to the trust-region boundary (no bound
        # involved), with a Hessian that pushes the boundary improvement
        # across that inequality
        tags.append("ub_tr_tie")
        gam = float(rng.choice([0.5, 1.0, 2.0]))
        delta = float(rng.choice([0.5, 1.0, 2.0, 4.0]))
        g = np.zeros(n)
        g[0] = -gam
        h = np.zeros((n, n))
        hh = -gam / delta * float(rng.choice([0.25, 0.5, 1.0, 2.0]))
        h[0, 1] = h[1, 0] = hh
        if rng.random() < 0.5:
            h[1, 1] = -abs(hh) * float(rng.choice([0.0, 0.5, 1.0]))
        xl = np.full(n, -np.inf)
        xu = np.full(n, np.inf)
        m = 1
        aub = np.zeros((1, n))
        aub[0, 0] = aub[0, 1] = 1.0
        bub = np.array([delta])
        me = 0
        aeq = np.zeros((0, n))
    if n >= 3 and rng.random() < 0.06:
        # structured family: two variables that are mirror images of each
        # other (same gradient component, Hessian symmetric under their
        # exchange, same bounds) up to ONE ULP in a gradient component or a
        # bound: both reach their bounds at step lengths / angles that differ
        # in the last bit, and only one of them is the minimiser
        tags.append("ulp_ties")
        g = rng.standard_normal(n) * gs
        g[1] = g[0]
        bb = rng.standard_normal((n, n))
        h = 0.5 * (bb + bb.T) * hs
        h[1, 1] = h[0, 0]
        h[1, 2:] = h[0, 2:]
        h[2:, 1] = h[2:, 0]
        xl = np.full(n, -np.inf)
        xu = np.full(n, np.inf)
        lo = -float(rng.uniform(0.2, 0.9)) * scale
        hi = float(rng.uniform(0.2, 0.9)) * scale
        xl[0] = xl[1] = lo
        xu[0] = xu[1] = hi
        k = int(rng.integers(4))
        if k == 0:
            g[1] = np.nextafter(g[1], np.inf)
        elif k == 1:
            xl[1] = np.nextafter(xl[1], 0.0)
        elif k == 2:
            xu[1] = np.nextafter(xu[1], 0.0)
        delta = float(scale * rng.uniform(0.8, 1.5))
        m = 0
        aub = np.zeros((0, n))
        bub = np.zeros(0)
        if rng.random() < 0.5 and n >= 3:
            me = min(2, n - 1)
            aeq = rng.standard_normal((me, n))
            aeq[:, 1] = aeq[:, 0]
        else:
            me = 0
            aeq = np.zeros((0, n))
    if n >= 2 and rng.random() < 0.05:
        # structured family: the gradient is dominated (by 6..12 decades) by
        # a multiple of the normal of an inequality that is active at the
        # origin, as when a run sits on a constraint with a huge multiplier:
        # the projected gradient keeps few correct digits
        tags.append("normal_dominated_gradient")
        m = 1
        aub = rng.standard_normal((1, n))
        bub = np.zeros(1)
        g = -10.0 ** rng.uniform(6, 12) * aub[0] * gs \
            + gs * rng.standard_normal(n)
        delta = float(scale * 10.0 ** rng.uniform(-2, 1))
        bb = rng.standard_normal((n, n))
        h = 0.5 * (bb + bb.T) * gs / delta * 10.0 ** rng.uniform(-2, 2)
        xl = np.full(n, -np.inf)
        xu = np.full(n, np.inf)
        me = 0
        aeq = np.zeros((0, n))
    if n >= 3 and rng.random() < 0.05:
        # structured family: an inequality that holds with equality at the
        # origin but is NOT in the initial working set (its normal makes an
        # acute angle with the gradient), whose row is orthogonal to every
        # projected CG direction (an equality removes the offending
        # component), so that its residual stays exactly zero while the CG
        # phase runs to the trust-region boundary; the gradient there pushes
        # the boundary improvement across it.  Exact zeros are kept by using
        # coordinate permutations / sign flips / powers of two only.
        tags.append("zero_resid_outside_ws")
        perm = rng.permutation(n)
        i0, i1, i2 = (int(v) for v in perm[:3])
        sg = rng.choice([-1.0, 1.0], n)
        gam = float(2.0 ** int(rng.integers(-20, 21)))
        delta = float(2.0 ** int(rng.integers(-20, 21)))
        a_, b_, c_ = (float(v) for v in rng.uniform(0.5, 4.0, 3))
        p_, q_, r_ = (float(v) for v in rng.uniform(0.5, 2.0, 3))
        g = np.zeros(n)
        g[i0] = -a_ * gam * sg[i0]
        g[i1] = b_ * gam * sg[i1]
        h = np.zeros((n, n))
        h[i0, i2] = h[i2, i0] = -c_ * gam / delta * sg[i0] * sg[i2]
        for j in perm[3:]:
            h[j, j] = float(rng.uniform(0.0, 2.0)) * gam / delta
        m = 1
        aub = np.zeros((1, n))
        aub[0, i1] = p_ * sg[i1]
        aub[0, i2] = q_ * sg[i2]
        bub = np.zeros(1)
        me = 1
        aeq = np.zeros((1, n))
        aeq[0, i1] = r_ * sg[i1]
        xl = np.full(n, -np.inf)
        xu = np.full(n, np.inf)
    bubn = rng.standard_normal(m) * scale
    beq = rng.standard_normal(me) * scale
    if n >= 3 and rng.random() < 0.06:
        # structured family for the NORMAL solver: linear constraints that
        # cannot be satisfied within the radius (the CG phase ends on the
        # ball) inside a box comparable to the ball (the boundary improvement
        # is limited by the bounds of several variables, not the first one)
        tags.append("normal_tight")
        delta = float(scale * 10.0 ** rng.uniform(-1, 1))
        xl = -delta * rng.uniform(0.25, 1.3, n)
        xu = delta * rng.uniform(0.25, 1.3, n)
        for i in rng.choice(n, size=int(rng.integers(0, n - 1)),
                            replace=False):
            if rng.random() < 0.5:
                xl[i] = -np.inf
            else:
                xu[i] = np.inf
        m = int(rng.integers(1, 4))
        aub = rng.standard_normal((m, n))
        bub = np.abs(rng.standard_normal(m)) * delta
        bubn = -np.linalg.norm(aub, axis=1) * delta * rng.uniform(1.5, 10, m)
        if rng.random() < 0.5:
            me = 1
            aeq = rng.standard_normal((1, n))
            beq = np.linalg.norm(aeq, axis=1) * delta * rng.uniform(2, 10, 1) \
                * float(rng.choice([-1.0, 1.0]))
        else:
            me = 0
            aeq = np.zeros((0, n))
            beq = np.zeros(0)
    if n >= 2 and rng.random() < 0.05:
        # structured family for the NORMAL solver: two equality rows that are
        # nearly dependent (relative gap 1e-10..1e-6), scaled to 1e3..1e5,
        # the origin infeasible mainly along the weak singular direction, a
        # radius larger than the distance to the solution
        tags.append("near_dependent_eq")
        r1 = rng.standard_normal(n)
        w = rng.standard_normal(n)
        gap = 10.0 ** rng.uniform(-10, -6)
        sc = 10.0 ** rng.uniform(3, 5)
        me = 2
        aeq = np.vstack([r1, r1 + gap * w]) * sc
        u_, s_, vt = np.linalg.svd(aeq)
        xs = vt[1] * float(rng.choice([-1.0, 1.0])) * 10.0 ** rng.uniform(
            -1, 1.3)
        beq = aeq @ xs
        delta = float(np.linalg.norm(xs) * rng.uniform(2, 10) + 1e-300)
        xl = np.full(n, -np.inf)
        xu = np.full(n, np.inf)
        m = 0
        aub = np.zeros((0, n))
        bub = np.zeros(0)
        bubn = np.zeros(0)
    if n >= 2 and rng.random() < 0.05:
        # structured family: a linear inequality whose distance from the
        # origin lies between delta*|a|_inf and delta*|a|_2 (reachable inside
        # the ball, but not by a move along one axis), gradient pushing the
        # step towards it
        tags.append("ub_reach_window")
        delta = float(scale * rng.choice([0.5, 1.0, 2.0]))
        k = int(rng.integers(2, n + 1))
        a = np.zeros(n)
        a[:k] = rng.uniform(0.7, 1.3, k) * rng.choice([-1.0, 1.0], k)
        ninf, n2 = float(np.max(np.abs(a))), float(np.linalg.norm(a))
        m = 1
        aub = a[None, :]
        bub = np.array([delta * (ninf + rng.uniform(0.15, 0.85)
                                 * (n2 - ninf))])
        g = -a * gs * rng.uniform(0.5, 2.0) + \
            0.05 * gs * rng.standard_normal(n)
        h = np.zeros((n, n)) if rng.random() < 0.5 else h * 0.01 / max(
            1e-300, float(np.max(np.abs(h)))) * gs / delta
        xl = np.full(n, -np.inf)
        xu = np.full(n, np.inf)
        me = 0
        aeq = np.zeros((0, n))
        beq = np.zeros(0)
        bubn = rng.standard_normal(m) * scale
    const = float(rng.standard_normal()) if rng.random() < 0.35 else 0.0
    if rng.random() < 0.05:
        # structured family for the GEOMETRY solvers: a constant term that
        # dominates the linear term by 13..16 decades (|g|*delta against
        # |const|) while the curvature is of the order of the constant: a
        # first-order improving direction exists and moving along it changes
        # |q| through the curvature
        tags.append("const_dominates_gradient")
        const = float(rng.choice([-1.0, 1.0]) * 10.0 ** rng.uniform(-1, 1))
        delta = float(scale * rng.choice([0.5, 1.0, 2.0]))
        g = rng.choice([-1.0, 1.0], n) * rng.uniform(0.5, 2.0, n) \
            * abs(const) / delta * 10.0 ** rng.uniform(-16, -13)
        hd = rng.uniform(0.5, 2.0, n) * abs(const) / delta ** 2
        h = np.diag(hd) * float(np.sign(const))
        xl = -delta * rng.uniform(0.0, 0.5, n) * (rng.random(n) < 0.5)
        xu = delta * rng.uniform(0.2, 0.6, n)
        m = 0
        aub = np.zeros((0, n))
        bub = np.zeros(0)
        bubn = np.zeros(0)
        me = 0
        aeq = np.zeros((0, n))
        beq = np.zeros(0)
    npt = int(rng.integers(1, 2 * n + 2))
    xpt = rng.standard_normal((n, npt)) * scale
    if rng.random() < 0.15:
        xpt[:, int(rng.integers(npt))] = 0.0
        tags.append("xpt0")
    if rng.random() < 0.2:
        # single coordinates of some directions exactly zero (a direction
        # lying in a face of a bound that is active at the origin)
        mask = rng.random(xpt.shape) < 0.3
        xpt[mask] = 0.0
        tags.append("xpt_zero_entries")
    return dict(n=n, g=g, h=h, xl=xl, xu=xu, delta=delta, aub=aub, bub=bub,
                aeq=aeq, bubn=bubn, beq=beq, const=const, xpt=xpt,
                tags=sorted(set(tags)))
