"""Seeded workload generators: JSON-able problem specs for ``problems.build``.

All randomness comes from a ``numpy.random.Generator`` derived from
(VERIF_SEED, check id, case index) by the check.
"""
import math
import os

import numpy as np

INF = float("inf")
# share of general problems restated in another unit of length
XUNIT_P = float(os.environ.get("VERIF_XUNIT_P", "0.03"))


def rng_for(seed, check_id, index):
    tag = sum(ord(c) * 131 ** i for i, c in enumerate(check_id)) % (2**31)
    return np.random.default_rng(np.random.SeedSequence([int(seed), tag,
                                                         int(index)]))


def _r(rng, lo, hi):
    return float(rng.uniform(lo, hi))


def spd(rng, n, cond=10.0):
    q, _ = np.linalg.qr(rng.standard_normal((n, n)))
    ev = np.exp(rng.uniform(0.0, np.log(cond), n))
    ev[0] = 1.0
    m = (q * ev) @ q.T
    return (0.5 * (m + m.T))


def objective(rng, n, kinds=("quad", "quad", "abs", "rosen", "noisy", "sinq",
                             "lin", "exp", "plateau")):
    kind = str(rng.choice(list(kinds)))
    if kind == "quad":
        return {"kind": "quad", "Q": spd(rng, n, 30.0).tolist(),
                "c": rng.uniform(-2, 2, n).tolist(),
                "g": (rng.uniform(-1, 1, n) * (rng.random() < 0.3)).tolist(),
                "f0": _r(rng, -1, 1)}
    if kind == "abs":
        return {"kind": "abs", "w": rng.uniform(0.5, 2, n).tolist(),
                "c": rng.uniform(-2, 2, n).tolist()}
    if kind == "rosen":
        return {"kind": "rosen"}
    if kind == "noisy":
        return {"kind": "noisy", "amp": float(10.0 ** rng.uniform(-8, -2)),
                "base": {"kind": "quad", "Q": spd(rng, n, 10.0).tolist(),
                         "c": rng.uniform(-2, 2, n).tolist()}}
    if kind == "sinq":
        return {"kind": "sinq", "a": rng.uniform(0.5, 3, n).tolist(),
                "c": rng.uniform(-2, 2, n).tolist()}
    if kind == "lin":
        return {"kind": "lin", "g": rng.uniform(-1, 1, n).tolist()}
    if kind == "exp":
        return {"kind": "exp", "a": rng.uniform(-1, 1, n).tolist(),
                "c": rng.uniform(-2, 2, n).tolist()}
    if kind == "const":
        return {"kind": "const", "value": _r(rng, -1, 1)}
    if kind == "plateau":
        # exactly 0.0 inside a ball of radius r around c, a squared hinge
        # outside: runs started inside see models that are identically zero
        return {"kind": "plateau", "c": rng.uniform(-2, 2, n).tolist(),
                "r": _r(rng, 0.5, 4.0)}
    raise ValueError(kind)


BOUND_PATTERNS = ("free", "lower", "upper", "two", "fixed", "narrow", "tiny",
                  "nearfixed", "width2", "zero")


def bounds(rng, n, x0, patterns=None, force=None, radius=1.0):
    """Per-variable pattern lattice.  Returns (lb, ub, pattern list)."""
    lb = np.full(n, -INF)
    ub = np.full(n, INF)
    pats = []
    for i in range(n):
        p = force[i] if force is not None else str(rng.choice(
            list(patterns or BOUND_PATTERNS)))
        pats.append(p)
        c = x0[i] + _r(rng, -1.5, 1.5)
        if p == "lower":
            lb[i] = c - _r(rng, 0, 2)
        elif p == "upper":
            ub[i] = c + _r(rng, 0, 2)
        elif p == "two":
            w = _r(rng, 2.2 * radius, 2.2 * radius + 6.0)
            lb[i], ub[i] = c - 0.5 * w, c + 0.5 * w
        elif p == "fixed":
            lb[i] = ub[i] = c
        elif p == "narrow":
            w = _r(rng, 0.05, 1.9) * radius
            lb[i], ub[i] = c - 0.5 * w, c + 0.5 * w
        elif p == "tiny":
            w = float(10.0 ** rng.uniform(-9, -3))
            lb[i], ub[i] = c - 0.5 * w, c + 0.5 * w
        elif p == "nearfixed":
            lb[i] = c
            ub[i] = float(np.nextafter(c, INF)) if rng.random() < 0.5 else c
        elif p == "width2":
            # width exactly 2.0 (unit scaling factor) around a centre that is
            # not zero: only the shift of the scaling is at work
            c = float(np.round(c * 2.0) / 2.0) or 0.5
            lb[i], ub[i] = c - 1.0, c + 1.0
        elif p == "zero":
            # a limit exactly equal to 0
            if rng.random() < 0.5:
                lb[i], ub[i] = 0.0, _r(rng, 0.5, 3.0)
            else:
                lb[i], ub[i] = -_r(rng, 0.5, 3.0), 0.0
        elif p == "huge":
            # finite bounds at the far end of the floating-point range (the
            # width ub - lb overflows for the largest ones)
            lb[i] = -min(10.0 ** rng.uniform(150, 308.2), 1.7e308)
            ub[i] = min(10.0 ** rng.uniform(150, 308.2), 1.7e308)
    return lb, ub, pats


def reduced_dim(lb, ub):
    """Number of variables the solver keeps (documented rule: a variable is
    fixed when lb_i <= ub_i and |lb_i - ub_i| < 10*eps*n*max(1, |lb_i|, |ub_i|))."""
    lb = np.asarray(lb, dtype=float)
    ub = np.asarray(ub, dtype=float)
    lo = np.where(np.isnan(lb), -INF, lb)
    hi = np.where(np.isnan(ub), INF, ub)
    w = np.maximum(1.0, np.maximum(np.where(np.isfinite(lo), np.abs(lo), 0.0),
                                   np.where(np.isfinite(hi), np.abs(hi), 0.0)))
    tol = 10.0 * np.finfo(float).eps * max(lo.size, 1) * w
    with np.errstate(invalid="ignore"):
        fixed = (lo <= hi) & (np.abs(lo - hi) < tol)
    return int(np.count_nonzero(~fixed))


def clamp_npt(spec):
    """Keep a requested nb_points inside the documented range for the
    REDUCED dimension (variables fixed by the bounds are eliminated)."""
    o = spec.get("options") or {}
    if "nb_points" in o and spec.get("bounds"):
        nred = reduced_dim(spec["bounds"]["lb"], spec["bounds"]["ub"])
        if nred >= 1:
            o["nb_points"] = int(min(max(o["nb_points"], nred + 1),
                                     (nred + 1) * (nred + 2) // 2))
        else:
            o.pop("nb_points")
    return spec


def place_x0(rng, x0, lb, ub, where=None):
    """Move x0 inside / on / outside the box."""
    x0 = np.array(x0, dtype=float)
    where = where or str(rng.choice(["inside", "on", "outside", "asis"]))
    for i in range(x0.size):
        lo, hi = lb[i], ub[i]
        if where == "asis" or (np.isinf(lo) and np.isinf(hi)):
            continue
        if where == "inside":
            a = lo if np.isfinite(lo) else hi - 3.0
            c = hi if np.isfinite(hi) else lo + 3.0
            x0[i] = a + rng.random() * (c - a)
        elif where == "on":
            x0[i] = lo if (np.isfinite(lo) and (rng.random() < 0.5
                                                 or not np.isfinite(hi))) \
                else hi
        elif where == "outside":
            if np.isfinite(lo) and (rng.random() < 0.5 or not np.isfinite(hi)):
                x0[i] = lo - _r(rng, 0.01, 3)
            else:
                x0[i] = hi + _r(rng, 0.01, 3)
    return x0, where


LIMIT_KINDS = ("upper", "lower", "two", "eq")


def limits(rng, m, v0, kinds=LIMIT_KINDS, tight=1.0):
    """Limits around the values v0 taken at x0 (so that constraints are
    neither trivially slack nor hopeless)."""
    lo = np.full(m, -INF)
    hi = np.full(m, INF)
    ks = []
    for i in range(m):
        k = str(rng.choice(list(kinds)))
        ks.append(k)
        off = _r(rng, -1.0, 1.0) * tight
        if k == "upper":
            hi[i] = v0[i] + off
        elif k == "lower":
            lo[i] = v0[i] + off
        elif k == "two":
            w = _r(rng, 0.1, 2.0)
            lo[i], hi[i] = v0[i] + off - 0.5 * w, v0[i] + off + 0.5 * w
            if rng.random() < 0.04:
                # limits stated the wrong way round (lb > ub): accepted by
                # SciPy's constraint classes; no point satisfies both sides
                # and the violation is what the two sides say
                lo[i], hi[i] = hi[i], lo[i]
                ks[-1] = "two"
        elif k == "eq":
            lo[i] = hi[i] = v0[i] + off
    return lo, hi, ks


def linear_constraints(rng, n, x0, count=None, kinds=LIMIT_KINDS):
    out = []
    count = int(rng.integers(1, 3)) if count is None else count
    for _ in range(count):
        m = int(rng.integers(1, 3))
        a = rng.uniform(-1, 1, (m, n))
        if rng.random() < 0.15:
            a[rng.integers(m), rng.integers(n)] = 0.0
        lo, hi, ks = limits(rng, m, a @ x0, kinds)
        # avoid more equalities than variables
        out.append({"A": a.tolist(), "lb": lo.tolist(), "ub": hi.tolist(),
                    "kinds": ks})
    if out and rng.random() < 0.12 and ("upper" in kinds or "lower" in kinds):
        # a row stated a second time, in another object, with another limit
        # (tighter or looser): both statements bind
        src = out[int(rng.integers(len(out)))]
        i = int(rng.integers(len(src["A"])))
        row = np.asarray(src["A"][i], dtype=float)
        side = str(rng.choice([k for k in ("upper", "lower") if k in kinds]))
        lim = float(row @ np.asarray(x0, float)) + _r(rng, -1.0, 1.0)
        out.append({"A": [row.tolist()],
                    "lb": [-math.inf if side == "upper" else lim],
                    "ub": [lim if side == "upper" else math.inf],
                    "kinds": [side]})
    return out


def nl_component(rng, n, kinds=("lin", "ball", "quad", "sin")):
    k = str(rng.choice(list(kinds)))
    if k == "lin":
        return {"kind": "lin", "a": rng.uniform(-1, 1, n).tolist(),
                "b": _r(rng, -1, 1)}
    if k == "ball":
        return {"kind": "ball", "c": rng.uniform(-1, 1, n).tolist(),
                "r": _r(rng, 0.5, 2.5)}
    if k == "quad":
        q = rng.uniform(-1, 1, (n, n))
        q = 0.5 * (q + q.T)
        return {"kind": "quad", "Q": q.tolist(),
                "g": rng.uniform(-1, 1, n).tolist(), "d": _r(rng, -1, 1)}
    return {"kind": "sin", "a": rng.uniform(-2, 2, n).tolist(),
            "d": _r(rng, -0.5, 0.5)}


def nonlinear_constraints(rng, n, x0, count=None, forms=("nlc",),
                          kinds=LIMIT_KINDS, comp_kinds=("lin", "ball",
                                                         "quad", "sin")):
    from .problems import base_component

    out = []
    count = int(rng.integers(1, 3)) if count is None else count
    for _ in range(count):
        form = str(rng.choice(list(forms)))
        m = 1 if form != "nlc" and rng.random() < 0.6 else int(
            rng.integers(1, 4))
        comps = [nl_component(rng, n, comp_kinds) for _ in range(m)]
        v0 = np.array([base_component(c, n)(np.asarray(x0, float))
                       for c in comps])
        ent = {"comps": comps, "form": form}
        if form == "nlc" and rng.random() < 0.06:
            # vacuous constraint object: no finite limit at all
            ent["lb"], ent["ub"] = [-INF] * m, [INF] * m
            ent["kinds"] = ["none"] * m
        elif form == "nlc":
            lo, hi, ks = limits(rng, m, v0, kinds)
            if rng.random() < 0.25 and m > 1 and len(set(ks)) == 1 \
                    and ks[0] in ("upper", "lower"):
                # scalar-broadcast limit
                if ks[0] == "upper":
                    ent["lb"], ent["ub"] = -INF, float(np.max(hi))
                else:
                    ent["lb"], ent["ub"] = float(np.min(lo)), INF
            else:
                ent["lb"], ent["ub"] = lo.tolist(), hi.tolist()
            ent["kinds"] = ks
        else:
            # dict constraints: fun(x) >= 0 or == 0; shift components so the
            # limit 0 is near the value at x0
            for c, v in zip(comps, v0):
                shift = v + _r(rng, -1, 1)
                if c["kind"] == "lin":
                    c["b"] = c["b"] + shift
                elif c["kind"] == "ball":
                    pass
                else:
                    c["d"] = c["d"] - shift
        ent["scalar"] = bool(m == 1 and rng.random() < 0.5)
        if form != "nlc" and rng.random() < 0.5:
            # dict constraint with an extra argument: fun(x, a) = c(x) + a
            ent["cargs"] = [float(np.round(rng.uniform(-0.5, 0.5), 3))]
            # ... given as a tuple, or bare (a float / a 0-d array): a single
            # extra argument need not be wrapped
            ent["cargs_form"] = str(rng.choice(["tuple", "tuple", "float",
                                                "array"]))
        out.append(ent)
    return out


def options(rng, n, maxfev=(30, 160), allow=("scale", "nb_points", "radius",
                                             "maxiter", "target", "filter",
                                             "history", "tol")):
    o = {"maxfev": int(rng.integers(maxfev[0], maxfev[1] + 1))}
    if "nb_points" in allow and rng.random() < 0.4:
        o["nb_points"] = int(rng.integers(n + 1, (n + 1) * (n + 2) // 2 + 1))
    if "radius" in allow and rng.random() < 0.4:
        ri = float(10.0 ** rng.uniform(-2, 1))
        o["radius_init"] = ri
        if rng.random() < 0.7:
            o["radius_final"] = ri * float(10.0 ** rng.uniform(-7, 0))
    if "scale" in allow and rng.random() < 0.35:
        o["scale"] = True
    if "maxiter" in allow and rng.random() < 0.15:
        o["maxiter"] = int(rng.integers(1, 60))
    if "filter" in allow and rng.random() < 0.15:
        o["filter_size"] = int(rng.integers(1, 6))
    if "history" in allow and rng.random() < 0.4:
        o["store_history"] = True
        if rng.random() < 0.5:
            o["history_size"] = int(rng.integers(1, 80))
    if "tol" in allow and rng.random() < 0.15:
        o["feasibility_tol"] = float(10.0 ** rng.uniform(-10, -2))
    if rng.random() < 0.08:
        o["disp"] = True            # progress printing (stdout is captured)
    return o


def callback(rng, stop=True):
    cb = {"conv": str(rng.choice(["kw", "pos"])),
          "form": str(rng.choice(["def", "lambda", "object", "partial",
                                  "unhashable", "falsy", "mixed_sig"]))}
    if cb["form"] == "mixed_sig":
        cb["conv"] = "pos"
    if stop and rng.random() < 0.4:
        cb["stop_at"] = int(rng.integers(1, 40))
    if rng.random() < 0.2:
        cb["overwrite"] = True
    if rng.random() < 0.2:
        # the callback RETURNS something (other solvers of
        # scipy.optimize.minimize read a true return value as a stop
        # request; cobyqa documents StopIteration only)
        cb["returns"] = str(rng.choice(["True", "np_true", "one", "str",
                                        "list", "False", "array", "array2",
                                        "echo"]))
    return cb


def tinyvars(spec, s):
    """Restate ``spec`` in the variables x' = s * x (s tiny or huge): same
    problem, every length (x0, bounds, radii, linear coefficients) in the new
    unit.  Steps late in such a run are far below 1e-13 in absolute terms."""
    n = spec["n"]
    mags = [np.abs(np.asarray(spec["x0"], float))]
    if spec.get("bounds"):
        mags += [np.abs(np.asarray(spec["bounds"][k], float))
                 for k in ("lb", "ub")]
    big = max((float(np.max(m[np.isfinite(m)], initial=0.0)) for m in mags),
              default=0.0)
    if not all(np.all(np.isfinite(m) | np.isinf(m)) for m in mags) or \
            big * s > 1e150 or not np.all(np.isfinite(mags[0])):
        # huge boxes: the new unit would overflow (x0 = inf is no problem
        # statement at all)
        return spec
    if spec.get("bounds"):
        w = (np.asarray(spec["bounds"]["ub"], float)
             - np.asarray(spec["bounds"]["lb"], float)) * s
        if np.any((w > 0) & (w <= 1e-11)):
            # 'fixed by the bounds' has an absolute floor (limits equal to
            # rounding relative to max(1, |limits|)): a narrow range would
            # become a fixed variable in the new unit - another problem
            return spec
    if spec["obj"]["kind"] != "none":
        spec["obj"] = {"kind": "xscaled", "base": spec["obj"], "s": s}
    for nc in spec.get("nl", []):
        nc["comps"] = [{"kind": "xscaled", "base": c, "s": s}
                       for c in nc["comps"]]
    spec["x0"] = (np.asarray(spec["x0"], float) * s).tolist()
    if spec.get("bounds"):
        for k in ("lb", "ub"):
            spec["bounds"][k] = (np.asarray(spec["bounds"][k], float)
                                 * s).tolist()
    for lc in spec.get("lin", []):
        lc["A"] = (np.asarray(lc["A"], float).reshape(-1, n) / s).tolist()
    o = spec.setdefault("options", {})
    o["radius_init"] = float(o.get("radius_init", 1.0)) * s
    o["radius_final"] = float(o.get("radius_final", 1e-6)) * s
    spec["xunit"] = s
    return spec


def fault_plan(rng, spec, density=1):
    """NaN / inf / huge injections on objective and constraint components."""
    faults = []
    targets = []
    if spec.get("obj", {}).get("kind", "none") != "none":
        targets.append(("obj", None))
    for j, nc in enumerate(spec.get("nl", [])):
        targets.append(("con", j))
    if not targets:
        return faults
    for _ in range(int(rng.integers(1, 2 + density))):
        t, j = targets[int(rng.integers(len(targets)))]
        f = {"target": t, "val": str(rng.choice(["nan", "nan", "inf", "-inf",
                                                  "huge", "-huge"]))}
        if t == "con":
            f["j"] = j
            m = len(spec["nl"][j]["comps"])
            f["comp"] = None if rng.random() < 0.3 else int(rng.integers(m))
        w = str(rng.choice(["idx", "idx", "half", "from", "all"]))
        if w == "idx":
            k = int(rng.integers(1, 6))
            f["when"] = {"idx": sorted(set(int(v) for v in
                                           rng.integers(0, 40, k)))}
        elif w == "half":
            n = spec["n"]
            a = rng.standard_normal(n)
            f["when"] = {"halfspace": {"a": a.tolist(),
                                       "b": float(a @ np.asarray(
                                           spec["x0"], float)
                                           + _r(rng, -1, 1))}}
        elif w == "from":
            f["when"] = {"from": int(rng.integers(0, 30))}
        else:
            f["when"] = {"all": True}
        faults.append(f)
    return faults


def general(rng, *, n=None, con=None, bound_patterns=None, x0_where=None,
            forms=("nlc",), obj_kinds=None, with_callback=None,
            with_faults=False, maxfev=(30, 160), opt_allow=None,
            fun_none=0.0, limit_kinds=LIMIT_KINDS, xunit=None):
    """A random problem drawn from the whole lattice."""
    n = int(rng.integers(1, 5)) if n is None else n
    x0 = rng.uniform(-2, 2, n)
    spec = {"n": n}
    con = con or str(rng.choice(["none", "lin", "nl", "both"]))
    if rng.random() < fun_none and con in ("nl", "both", "lin"):
        spec["obj"] = {"kind": "none"}
    else:
        spec["obj"] = objective(rng, n, obj_kinds) if obj_kinds else \
            objective(rng, n)
    opts = options(rng, n, maxfev, opt_allow) if opt_allow is not None \
        else options(rng, n, maxfev)
    radius = opts.get("radius_init", 1.0)
    if bound_patterns != "none" and (bound_patterns is not None
                                     or rng.random() < 0.75):
        lb, ub, pats = bounds(rng, n, x0, bound_patterns, radius=radius)
        form = str(rng.choice(["Bounds", "array", "list", "tuple"],
                              p=[0.4, 0.3, 0.15, 0.15]))
        spec["bounds"] = {"lb": lb.tolist(), "ub": ub.tolist(), "form": form,
                          "patterns": pats}
        x0, where = place_x0(rng, x0, lb, ub, x0_where)
        spec["x0_where"] = where
    spec["x0"] = x0.tolist()
    if "nb_points" in opts and spec.get("bounds"):
        nred = reduced_dim(spec["bounds"]["lb"], spec["bounds"]["ub"])
        if nred >= 1:
            opts["nb_points"] = int(min(max(opts["nb_points"], nred + 1),
                                        (nred + 1) * (nred + 2) // 2))
        else:
            opts.pop("nb_points")
    if con in ("lin", "both"):
        spec["lin"] = linear_constraints(rng, n, x0, kinds=limit_kinds)
    if con in ("nl", "both"):
        spec["nl"] = nonlinear_constraints(rng, n, x0, forms=forms,
                                           kinds=limit_kinds)
    spec["options"] = opts
    if with_callback or (with_callback is None and rng.random() < 0.4):
        spec["callback"] = callback(rng)
    if with_faults:
        spec["faults"] = fault_plan(rng, spec)
    if rng.random() < 0.08:
        spec["scribble"] = True     # user functions overwrite their argument
    if rng.random() < 0.06:
        # user functions returning integers, float32, lists
        spec["rtype"] = {
            "obj": [None, "int", "pyint", "float32"][int(rng.integers(4))],
            "con": [None, "int", "float32", "list", "int"][
                int(rng.integers(5))]}
    spec["con_kind"] = con
    if xunit is not False and rng.random() < XUNIT_P and not with_faults \
            and "target" not in opts:
        # the whole problem in another unit of length (see tinyvars)
        spec.pop("scribble", None)
        tinyvars(spec, float(10.0 ** rng.choice([-13, -10, -6, 5, 9])))
    return spec


def mixmag(rng, spec):
    """Rewrite the limits of the linear / NonlinearConstraint objects of a
    spec so that one component is a NARROW two-sided interval (width 1e-8 ..
    1e-2, feasible at x0) while a sibling component of the same object has
    huge limits (1e4 .. 1e13, far from active).  Whether lb_i = ub_i 'to
    rounding' must be judged per component."""
    from .problems import base_component
    n = spec["n"]
    x0 = np.asarray(spec["x0"], float)
    done = 0
    for c in spec.get("lin", []):
        a = np.asarray(c["A"], float)
        lo = np.asarray(c["lb"], float).copy()
        hi = np.asarray(c["ub"], float).copy()
        if a.shape[0] < 2:
            a = np.vstack([a, rng.uniform(-1, 1, (1, n))])
            lo = np.append(lo, 0.0)
            hi = np.append(hi, 0.0)
        v0 = np.where(np.isnan(a), 0.0, a) @ x0
        _mix_limits(rng, v0, lo, hi)
        c["A"], c["lb"], c["ub"] = a.tolist(), lo.tolist(), hi.tolist()
        c.pop("kinds", None)
        done += 1
    for c in spec.get("nl", []):
        if c.get("form") != "nlc":
            continue
        comps = list(c["comps"])
        if len(comps) < 2:
            comps.append(nl_component(rng, n))
        m = len(comps)
        v0 = np.array([base_component(cc, n)(x0) for cc in comps])
        lo = np.broadcast_to(np.asarray(c["lb"], float), (len(c["comps"]),))
        hi = np.broadcast_to(np.asarray(c["ub"], float), (len(c["comps"]),))
        lo = np.append(lo, [0.0] * (m - lo.size)).astype(float)
        hi = np.append(hi, [0.0] * (m - hi.size)).astype(float)
        _mix_limits(rng, v0, lo, hi)
        c["comps"], c["lb"], c["ub"] = comps, lo.tolist(), hi.tolist()
        c["scalar"] = False
        c.pop("kinds", None)
        done += 1
    if done:
        spec["mixmag"] = True
    return spec


def _mix_limits(rng, v0, lo, hi):
    m = v0.size
    j = int(rng.integers(m))
    k = (j + 1 + int(rng.integers(m - 1))) % m
    gap = 10.0 ** rng.uniform(-8, -2)
    lo[j] = v0[j] - gap * rng.random()
    hi[j] = lo[j] + gap
    big = 10.0 ** (rng.uniform(4, 13) if rng.random() < 0.8
                   else rng.uniform(150, 300))
    lo[k], hi[k] = [(-big, big), (-INF, big), (-big, INF)][
        int(rng.integers(3))]


def spec_signature(spec):
    """Coarse signature of the configuration cell of a spec."""
    b = spec.get("bounds")
    pats = "".join(sorted(set(p[0] for p in b.get("patterns", [])))) if b \
        else "-"
    o = spec.get("options") or {}
    return "|".join([
        f"n{spec['n']}", spec.get("obj", {}).get("kind", "none"),
        spec.get("con_kind", "?"), "b" + pats,
        "s" + str(int(bool(o.get("scale")))),
        "cb" + str(spec.get("callback", {}).get("conv", "-")),
        "f" + str(len(spec.get("faults", []))),
    ])
