"""Problems from JSON-able specs, wrapped in user-boundary spies.

A *spec* is a plain dict (lists, numbers, strings) so that every case can be
written to a replay file and rebuilt bit-identically.  ``build(spec)`` returns
the arguments of ``cobyqa.minimize`` in which the objective, every nonlinear
constraint function and the callback are spies that append to the log of the
current ``ctx.Run`` *before* and after invoking the underlying function.
"""
import functools
import inspect
import hashlib
import math
import struct
import threading

import numpy as np
from scipy.optimize import Bounds, LinearConstraint, NonlinearConstraint

from . import ctx

HUGE = 1e200


# --------------------------------------------------------------------- helpers
def arr(v):
    """List (possibly with 'inf'/'nan' strings) -> float array."""
    return np.array([num(t) for t in v], dtype=float) if not isinstance(
        v, np.ndarray) else v


def num(t):
    if isinstance(t, str):
        return float(t)
    return float(t)


def jsonable(o):
    """Recursively convert numpy things / non-finite floats to JSON values."""
    if isinstance(o, dict):
        return {str(k): jsonable(v) for k, v in o.items()}
    if isinstance(o, (list, tuple)):
        return [jsonable(v) for v in o]
    if isinstance(o, np.ndarray):
        return jsonable(o.tolist())
    if isinstance(o, (np.floating, float)):
        f = float(o)
        if math.isnan(f):
            return "nan"
        if math.isinf(f):
            return "inf" if f > 0 else "-inf"
        return f
    if isinstance(o, (np.integer,)):
        return int(o)
    if isinstance(o, (np.bool_,)):
        return bool(o)
    if isinstance(o, bytes):
        return o.hex()
    return o


def _noise(x, amp):
    h = hashlib.blake2b(np.ascontiguousarray(x).tobytes(), digest_size=8)
    u = struct.unpack("<Q", h.digest())[0] / 2.0**64
    return amp * (2.0 * u - 1.0)


# ------------------------------------------------------------- base functions
def base_objective(o, n):
    kind = o["kind"]
    if kind == "quad":
        q = np.array(o["Q"], dtype=float).reshape(n, n)
        c = arr(o["c"])
        g = arr(o.get("g", [0.0] * n))
        f0 = float(o.get("f0", 0.0))
        return lambda x: float(0.5 * (x - c) @ q @ (x - c) + g @ x + f0)
    if kind == "abs":
        w = arr(o["w"])
        c = arr(o["c"])
        return lambda x: float(w @ np.abs(x - c))
    if kind == "rosen":
        def rosen(x):
            if x.size == 1:
                return float((1.0 - x[0]) ** 2)
            return float(np.sum(100.0 * (x[1:] - x[:-1] ** 2) ** 2
                                + (1.0 - x[:-1]) ** 2))
        return rosen
    if kind == "noisy":
        inner = base_objective(o["base"], n)
        amp = float(o["amp"])
        return lambda x: inner(x) + _noise(x, amp)
    if kind == "const":
        val = num(o["value"])
        return lambda x: val
    if kind == "lin":
        g = arr(o["g"])
        return lambda x: float(g @ x)
    if kind == "exp":
        a = arr(o["a"])
        c = arr(o["c"])
        return lambda x: float(np.sum(np.exp(np.clip(a * x, -700, 700)))
                               + 0.5 * (x - c) @ (x - c))
    if kind == "sinq":
        a = arr(o["a"])
        c = arr(o["c"])
        return lambda x: float(np.sum(np.sin(a * x)) + 0.5 * (x - c) @ (x - c))
    if kind == "xscaled":
        inner = base_objective(o["base"], n)
        sc = float(o["s"])
        return lambda x: inner(x / sc)
    if kind == "plateau":
        c = arr(o["c"])
        r = float(o["r"])
        return lambda x: float(max(0.0, float(np.linalg.norm(x - c)) - r)
                               ** 2)
    raise ValueError(kind)


def base_component(comp, n):
    kind = comp["kind"]
    if kind == "lin":
        a = arr(comp["a"])
        b = float(comp["b"])
        return lambda x: float(a @ x - b)
    if kind == "ball":
        c = arr(comp["c"])
        r2 = float(comp["r"]) ** 2
        return lambda x: float((x - c) @ (x - c) - r2)
    if kind == "quad":
        q = np.array(comp["Q"], dtype=float).reshape(n, n)
        g = arr(comp["g"])
        d = float(comp["d"])
        return lambda x: float(0.5 * x @ q @ x + g @ x + d)
    if kind == "sin":
        a = arr(comp["a"])
        d = float(comp["d"])
        return lambda x: float(np.sin(a @ x) + d)
    if kind == "const":
        v = num(comp["value"])
        return lambda x: v
    if kind == "shift":
        inner = base_component(comp["base"], n)
        add = float(comp["add"])
        return lambda x: inner(x) + add
    if kind == "xscaled":
        inner = base_component(comp["base"], n)
        sc = float(comp["s"])
        return lambda x: inner(x / sc)
    raise ValueError(kind)


# ---------------------------------------------------------------------- faults
_FVAL = {"nan": math.nan, "inf": math.inf, "-inf": -math.inf,
         "huge": HUGE, "-huge": -HUGE, "tiny": 5e-16}


def _fault_applies(f, idx, x):
    w = f["when"]
    if "all" in w:
        return True
    if "idx" in w:
        return idx in w["idx"]
    if "from" in w:
        return idx >= w["from"]
    if "halfspace" in w:
        a = arr(w["halfspace"]["a"])
        return float(a @ x) > float(w["halfspace"]["b"])
    return False


def _apply_faults(faults, idx, x, val):
    """val: float or 1-D array (copy is modified)."""
    for f in faults:
        if not _fault_applies(f, idx, x):
            continue
        if f["val"] == "raise":
            # the user function fails with an exception of its own
            raise ArithmeticError("injected failure of a user function")
        if f["val"] == "raise_stop":
            # ... or with StopIteration (an exhausted iterator inside the
            # user's code): still the user's failure, not a callback request
            raise StopIteration("injected: user function ran out of data")
        fv = _FVAL[f["val"]]
        if np.ndim(val) == 0:
            val = fv
        else:
            val = np.array(val, dtype=float, copy=True)
            comp = f.get("comp")
            if comp is None:
                val[:] = fv
            elif comp < val.size:
                val[comp] = fv
    return val


# ----------------------------------------------------------------------- spies
_global_lock = threading.Lock()
_global_seq = [0]
GLOBAL_ORDER = []          # (thread ident, run label, kind) for C11


def _record(ev):
    c = ctx.current()
    if c is None:
        return None
    ev["seq"] = len(c.log)
    c.log.append(ev)
    c.counts["spy." + ev["t"]] += 1
    if c.data.get("global_order"):
        with _global_lock:
            GLOBAL_ORDER.append((threading.get_ident(), c.label, ev["t"]))
    hook = c.data.get("spy_hook")
    if hook is not None:
        hook(c, ev)
    return c


def _scribble(x):
    """Hostile user function: overwrite the array it was given (if it can)."""
    if isinstance(x, np.ndarray) and x.flags.writeable:
        try:
            x[...] = 1e30
        except (ValueError, TypeError):
            pass


class ObjectiveSpy:
    """Objective wrapper.  ``__name__`` deliberately absent on instances is
    fine for cobyqa (falls back to 'fun')."""

    def __init__(self, base, faults=(), nargs=0, scribble=False):
        self.base = base
        self.faults = list(faults)
        self.calls = 0
        self.nargs = nargs
        self.scribble = scribble

    def __call__(self, x, *args):
        x = np.asarray(x)
        ev = {"t": "obj", "x": np.array(x, dtype=float, copy=True), "v": None,
              "args": len(args), "xshape": x.shape, "writeable": bool(
                  x.flags.writeable)}
        _record(ev)
        idx = self.calls
        self.calls += 1
        v = self.base(np.array(x, dtype=float))
        for a in args:
            v = v + float(a)
        v = _apply_faults(self.faults, idx, x, v)
        v = _retype(v, getattr(self, "rtype", None))
        ev["v"] = float(v)
        ev["done"] = True
        if self.scribble:
            _scribble(x)
        return v


def _retype(v, rtype):
    """Legitimate but unusual return types of user functions: integers
    (Python / numpy, scalar / array), float32, lists, 0-d arrays.  The value
    is rounded first so that the recorded truth is what is returned."""
    if rtype is None:
        return v
    a = np.asarray(v, dtype=float)
    if rtype in ("int", "pyint"):
        if np.any(np.abs(a[np.isfinite(a)]) > 2.0 ** 50):
            return v
        if not np.all(np.isfinite(a)):
            # integers where defined (component-wise, so that the values do
            # not depend on how components are grouped into objects)
            return np.where(np.isfinite(a), np.rint(a), a)
        r = np.rint(a).astype(np.int64)
        if r.ndim == 0:
            return int(r) if rtype == "pyint" else np.int64(r)
        return r
    if rtype == "float32":
        return a.astype(np.float32)
    if rtype == "list":
        return a.tolist()
    if rtype == "bool":
        return (a > 0) if a.ndim else bool(a > 0)
    return v


class ConstraintSpy:
    def __init__(self, j, comps, faults=(), scalar=False, nargs=0,
                 expected_args=()):
        self.j = j
        self.comps = comps
        self.faults = list(faults)
        self.calls = 0
        self.scalar = scalar
        # the extra arguments the USER stated for this function (dict
        # constraints); the value "as the user stated it" uses these
        self.expected_args = tuple(float(a) for a in expected_args)
        self.scribble = False

    def __call__(self, x, *args):
        x = np.asarray(x)
        ev = {"t": "con", "j": self.j,
              "x": np.array(x, dtype=float, copy=True), "v": None,
              "xshape": x.shape}
        _record(ev)
        idx = self.calls
        self.calls += 1
        xx = np.array(x, dtype=float)
        v0 = np.array([f(xx) for f in self.comps], dtype=float)
        v = v0
        for a in args:
            v = v + float(a)
        v = _apply_faults(self.faults, idx, x, v)
        v = _retype(v, getattr(self, "rtype", None))
        ev["v"] = np.array(v, dtype=float, copy=True)
        got = tuple(float(a) for a in args)
        if got != self.expected_args:
            # called with other extra arguments than the user stated: keep
            # the value the user's statement implies for the ground truth
            vt = v0
            for a in self.expected_args:
                vt = vt + a
            ev["v_stated"] = np.array(_apply_faults(self.faults, idx, x, vt),
                                      dtype=float, copy=True)
            ev["args_got"] = got
            ev["args_stated"] = self.expected_args
        ev["done"] = True
        if self.scribble:
            _scribble(x)
        if isinstance(v, list):
            return v
        if self.scalar and v.size == 1:
            return v[0] if getattr(self, "rtype", None) else float(v[0])
        return v


class StopAt(Exception):
    pass


def _cb_core(state, x=None, fun=None, conv=None, raw=None):
    ev = {"t": "cb", "x": np.array(x, dtype=float, copy=True),
          "fun": fun, "conv": conv, "k": state["calls"] + 1,
          "xid": id(raw), "writeable": bool(np.asarray(raw).flags.writeable)
          if raw is not None else None}
    _record(ev)
    state["calls"] += 1
    state["arrays"].append(raw)
    if state.get("overwrite") and raw is not None:
        try:
            raw[...] = 1e30
        except (ValueError, TypeError):
            ev["overwrite_failed"] = True
    if state.get("stop_at") is not None and state["calls"] == state["stop_at"]:
        ev["stop"] = True
        raise StopIteration
    if state.get("raise_other_at") is not None and \
            state["calls"] == state["raise_other_at"]:
        raise StopAt("callback failure")


def make_callback(cb):
    if cb is None:
        return None, None
    state = {"calls": 0, "stop_at": cb.get("stop_at"),
             "overwrite": cb.get("overwrite", False), "arrays": [],
             "raise_other_at": cb.get("raise_other_at")}
    conv = cb.get("conv", "pos")
    form = cb.get("form", "def")

    if conv == "kw":
        def core_kw(intermediate_result):
            if not hasattr(intermediate_result, "x"):
                # invoked with a bare point although the signature asks for
                # the keyword convention: record what actually happened
                _cb_core(state, np.asarray(intermediate_result, dtype=float),
                         None, "pos", intermediate_result)
                return
            _cb_core(state, intermediate_result.x,
                     getattr(intermediate_result, "fun", None), "kw",
                     intermediate_result.x)
        if form == "lambda":
            f = lambda intermediate_result: core_kw(intermediate_result)  # noqa
        elif form == "object":
            class CB:
                def __call__(self, intermediate_result):
                    core_kw(intermediate_result)
            f = CB()
        elif form == "partial":
            def two(extra, intermediate_result):
                core_kw(intermediate_result)
            f = functools.partial(two, 1.5)
        else:
            f = core_kw
    else:
        def core_pos(xk):
            if hasattr(xk, "x") and not isinstance(xk, np.ndarray):
                _cb_core(state, xk.x, getattr(xk, "fun", None), "kw", xk.x)
                return
            _cb_core(state, xk, None, "pos", xk)
        if form == "lambda":
            f = lambda xk: core_pos(xk)  # noqa: E731
        elif form == "object":
            class CB:
                def __call__(self, xk):
                    core_pos(xk)
            f = CB()
        elif form == "partial":
            def two(extra, xk):
                core_pos(xk)
            f = functools.partial(two, 1.5)
        elif form == "mixed_sig":
            # the magic name appears in the signature next to a required
            # positional parameter: the documented test is 'the signature
            # is exactly (intermediate_result)', so this one gets the point
            def mixed(xk, intermediate_result=None):
                core_pos(xk)
            f = mixed
        elif form == "other_name":
            # a keyword-capable parameter whose name is not the magic one
            def other(result):
                core_pos(result)
            f = other
        else:
            f = core_pos
    if form == "unhashable":
        f = _unhashable(f)
    if form == "falsy":
        f = _unhashable(f, [])
    if cb.get("returns") is not None:
        f = _returning(f, cb["returns"])
    return f, state


def _unhashable(f, content=(1, 2, 3)):
    """A perfectly valid callback object that cannot be hashed (a list
    subclass with __call__, like a default dataclass with eq=True); with an
    empty content it is also FALSE in a boolean context (a recorder that has
    recorded nothing yet)."""
    params = list(inspect.signature(f).parameters)

    if params == ["intermediate_result"]:
        class ListCB(list):
            def __call__(self, intermediate_result):
                return f(intermediate_result)
    else:
        class ListCB(list):
            def __call__(self, xk):
                return f(xk)
    return ListCB(list(content))


RETURNS = {"True": True, "np_true": np.bool_(True), "one": 1, "str": "stop",
           "list": [1], "False": False, "array": np.array([1.0]),
           "array2": np.array([1.0, 0.0]), "echo": None}


def _returning(f, what):
    """Same callable (same signature as seen by inspect.signature), but it
    returns a value after recording the call."""
    val = RETURNS[what]

    @functools.wraps(f)
    def g(*a, **k):
        f(*a, **k)
        if what == "echo":
            # returns what it was given (lambda xk: xk): a point has no
            # truth value
            got = a[0] if a else next(iter(k.values()))
            return np.array(getattr(got, "x", got), dtype=float, copy=True)
        return val
    return g


# ----------------------------------------------------------------------- build
class Built:
    pass


def build(spec, readonly=False):
    n = int(spec["n"])
    b = Built()
    b.spec = spec
    b.n = n
    faults = spec.get("faults", [])

    # objective
    o = spec.get("obj", {"kind": "none"})
    if o["kind"] == "none":
        b.fun = None
        b.obj_spy = None
    else:
        b.obj_spy = ObjectiveSpy(
            base_objective(o, n),
            [f for f in faults if f["target"] == "obj"],
            scribble=bool(spec.get("scribble")))
        b.fun = b.obj_spy
        b.obj_spy.rtype = (spec.get("rtype") or {}).get("obj")
    b.args = tuple(spec.get("args", ()))
    b.x0 = arr(spec["x0"])

    # bounds
    bd = spec.get("bounds")
    if bd is None or bd.get("form") == "none":
        b.bounds = None
        b.lb = np.full(n, -np.inf)
        b.ub = np.full(n, np.inf)
    else:
        lb = arr(bd["lb"])
        ub = arr(bd["ub"])
        b.lb = np.where(np.isnan(lb), -np.inf, lb)
        b.ub = np.where(np.isnan(ub), np.inf, ub)
        if bd.get("form", "Bounds") == "array":
            b.bounds = np.stack([lb, ub], axis=1)
        elif bd.get("form") == "list":
            b.bounds = [(float(l_), float(u_)) for l_, u_ in zip(lb, ub)]
        elif bd.get("form") == "tuple":
            b.bounds = tuple((float(l_), float(u_)) for l_, u_ in zip(lb, ub))
        else:
            b.bounds = Bounds(lb, ub)
    # constraints
    cons = []
    b.lin = []
    b.nl = []
    b.con_spies = []
    order = spec.get("order")
    items = []
    for i, lc in enumerate(spec.get("lin", [])):
        a = np.array([[num(t) for t in row] for row in lc["A"]], dtype=float)
        a = a.reshape(-1, n)
        lo = lc["lb"]
        hi = lc["ub"]
        lo_a = arr(lo) if isinstance(lo, list) else num(lo)
        hi_a = arr(hi) if isinstance(hi, list) else num(hi)
        obj = LinearConstraint(a, lo_a, hi_a)
        b.lin.append({"A": a, "lb": np.broadcast_to(lo_a, (a.shape[0],)),
                      "ub": np.broadcast_to(hi_a, (a.shape[0],))})
        items.append(("lin", i, obj))
    for j, nc in enumerate(spec.get("nl", [])):
        comps = [base_component(c, n) for c in nc["comps"]]
        spy = ConstraintSpy(
            j, comps,
            [f for f in faults if f["target"] == "con" and f.get("j", 0) == j],
            scalar=nc.get("scalar", False),
            expected_args=nc.get("cargs", ()) if nc.get("form", "nlc") != "nlc"
            else ())
        spy.scribble = bool(spec.get("scribble"))
        spy.rtype = (spec.get("rtype") or {}).get("con")
        b.con_spies.append(spy)
        form = nc.get("form", "nlc")
        m = len(comps)
        if form == "nlc":
            lo = nc["lb"]
            hi = nc["ub"]
            lo_a = arr(lo) if isinstance(lo, list) else num(lo)
            hi_a = arr(hi) if isinstance(hi, list) else num(hi)
            obj = NonlinearConstraint(spy, lo_a, hi_a)
            tl = np.broadcast_to(lo_a, (m,)).astype(float)
            tu = np.broadcast_to(hi_a, (m,)).astype(float)
        elif form == "dict_ineq":
            obj = {"type": "ineq", "fun": spy}
            tl = np.zeros(m)
            tu = np.full(m, np.inf)
        elif form == "dict_eq":
            obj = {"type": "eq", "fun": spy}
            tl = np.zeros(m)
            tu = np.zeros(m)
        else:
            raise ValueError(form)
        if "cargs" in nc and isinstance(obj, dict):
            obj["args"] = tuple(nc["cargs"])
            if len(nc["cargs"]) == 1 and nc.get("cargs_form") == "float":
                obj["args"] = float(nc["cargs"][0])
            elif len(nc["cargs"]) == 1 and nc.get("cargs_form") == "array":
                obj["args"] = np.array(float(nc["cargs"][0]))
        b.nl.append({"lb": tl, "ub": tu, "m": m, "form": form})
        items.append(("nl", j, obj))
    if order is not None:
        items = [items[i] for i in order]
    cons = [it[2] for it in items]
    ctype = spec.get("constraints_container", "list")
    if ctype == "tuple":
        b.constraints = tuple(cons)
    elif ctype == "single" and len(cons) == 1:
        b.constraints = cons[0]
    else:
        b.constraints = cons

    b.callback, b.cb_state = make_callback(spec.get("callback"))
    b.options = None if spec.get("options") is None else {
        k: (num(v) if isinstance(v, str) and k not in ("unknown",) else v)
        for k, v in spec["options"].items()}
    b.constants = {k: (num(v) if isinstance(v, str) else v)
                   for k, v in spec.get("constants", {}).items()}
    if readonly:
        b.x0.flags.writeable = False
        for lc in items:
            if lc[0] == "lin":
                for a in (lc[2].A, lc[2].lb, lc[2].ub):
                    if isinstance(a, np.ndarray):
                        a.flags.writeable = False
        if isinstance(b.bounds, Bounds):
            b.bounds.lb.flags.writeable = False
            b.bounds.ub.flags.writeable = False
        elif isinstance(b.bounds, np.ndarray):
            b.bounds.flags.writeable = False
    return b


def call_minimize(b, **over):
    import cobyqa
    kw = dict(args=b.args, bounds=b.bounds, constraints=b.constraints,
              callback=b.callback, options=b.options)
    kw.update(over)
    if not kw["args"]:
        kw.pop("args")
    return cobyqa.minimize(b.fun, b.x0, **kw, **b.constants)
