"""One monitored call of ``cobyqa.minimize``: spies + taps + outcome."""
import time
import warnings

import numpy as np

from . import ctx, taps, problems, truth


class Rec:
    """Everything observed in one run."""

    def __init__(self):
        self.spec = None
        self.built = None
        self.run = None
        self.res = None
        self.exc = None
        self.warnings = []
        self.wall = 0.0

    # ---- derived views of the user-boundary log -------------------------
    def obj_events(self):
        return [e for e in self.run.log if e["t"] == "obj"]

    def con_events(self, j=None):
        return [e for e in self.run.log
                if e["t"] == "con" and (j is None or e["j"] == j)]

    def cb_events(self):
        return [e for e in self.run.log if e["t"] == "cb"]

    def rounds(self):
        """Group the log into evaluation rounds.

        A round starts at each objective call (or, without objective, at each
        call of the first constraint function that is not preceded in the same
        round...) -- to stay independent of that subtlety the rounds are taken
        from the Problem.__call__ tap: round i = log[evals[i].log0:evals[i].log1].
        """
        out = []
        for ev in self.run.evals:
            out.append(self.run.log[ev["log0"]:ev.get("log1", ev["log0"])])
        return out

    def eval_points(self):
        """User-space evaluation points e_1..e_N from the spies alone.

        With an objective: the objective-call points.  Without: the points of
        the calls of constraint function 0 (consecutive duplicates are the
        same round only if scipy's cache skipped them, which cannot happen for
        the *first* function of a round, so every call of function 0 is one
        round)."""
        if self.built.fun is not None:
            return [e["x"] for e in self.obj_events()]
        if self.built.nl:
            return [e["x"] for e in self.con_events(0)]
        # no user function at all (fun=None, linear constraints only): the
        # only observable is the tap; build_x is a pure function of x
        from . import oracles
        return [oracles.user_of(self, ev["pb"], ev["x"])
                for ev in self.run.evals]

    def nl_values_at(self, x):
        """Logged raw values of every nonlinear constraint at user point x
        (last matching call), or None when some function was never called
        there."""
        key = np.ascontiguousarray(x).tobytes()
        vals = []
        for j in range(len(self.built.nl)):
            found = None
            for e in self.con_events(j):
                if e["x"].tobytes() == key and e.get("done"):
                    found = e.get("v_stated", e["v"])
            if found is None:
                return None
            vals.append(found)
        return vals

    def true_maxcv(self, x):
        vals = self.nl_values_at(x)
        if vals is None:
            return None, None
        consistent = bool(np.all(self.built.lb <= self.built.ub))
        return truth.true_maxcv(self.built, x, vals, consistent)


def run(spec, setup=None, readonly=False, label=None, built=None,
        install_taps=True, **over):
    """Run minimize on ``spec`` under monitoring and return a ``Rec``."""
    if install_taps:
        taps.install()
    rec = Rec()
    rec.spec = spec
    rec.built = built if built is not None else problems.build(
        spec, readonly=readonly)
    if spec.get("prelude_n") and rec.built.options is not None:
        # the caller's options dict OBJECT served an earlier, unrelated call
        # (another dimension) before this one; not monitored
        import contextlib
        import io
        import cobyqa
        with warnings.catch_warnings():
            warnings.simplefilter("ignore")
            with contextlib.redirect_stdout(io.StringIO()):
                try:
                    cobyqa.minimize(lambda x: float(np.sum((x - 0.3) ** 2)),
                                    np.zeros(int(spec["prelude_n"])),
                                    options=rec.built.options)
                except Exception:  # noqa: BLE001
                    pass
    r = ctx.Run(label=label)
    rec.run = r
    if setup is not None:
        setup(r, rec)
    t0 = time.perf_counter()
    import contextlib
    import io
    sink = io.StringIO()
    with warnings.catch_warnings(record=True) as wlist:
        warnings.simplefilter("always")
        with ctx.active(r), contextlib.redirect_stdout(sink):
            try:
                rec.res = problems.call_minimize(rec.built, **over)
            except BaseException as exc:  # noqa: BLE001 - outcome monitor
                if isinstance(exc, KeyboardInterrupt) or \
                        type(exc).__name__ == "_CaseTimeout":
                    raise      # the harness' own watchdog, not an outcome
                rec.exc = exc
    rec.stdout_chars = len(sink.getvalue())
    rec.wall = time.perf_counter() - t0
    rec.warnings = [(w.category.__name__, str(w.message)) for w in wlist]
    if r.hook_errors:
        # a bug in a monitor: never a verdict on the code under test
        raise RuntimeError("monitor hook failed:\n" + r.hook_errors[0])
    return rec


def result_summary(res):
    if res is None:
        return None
    out = {}
    for k in ("status", "success", "nfev", "nit", "fun", "maxcv", "message"):
        if k in res:
            out[k] = res[k]
    if "x" in res:
        out["x"] = np.asarray(res["x"]).tolist()
    return problems.jsonable(out)
