"""Known findings: committed list + classifiers over violation *mechanisms*.

``known_findings.json`` is never written at run time.  An entry is
{id, property, status, classifier, params, what_fails}.  ``status`` is "open"
or starts with "fixed:"; only *open* entries suppress a violation (and print a
KNOWN-FINDING line); fixed entries are documentation and suppress nothing.
A classifier is a named predicate over one violation record
({clause, msg, witness}); it looks at the mechanism the check recorded in the
witness, never at seeds, case ids or random values.
"""
import json
import os

from . import boot

PATH = os.path.join(boot.VERIF, "known_findings.json")


def load():
    if not os.path.exists(PATH):
        return {}
    with open(PATH) as fh:
        doc = json.load(fh)
    return {e["id"]: e for e in doc.get("findings", [])}


# --------------------------------------------------------------- classifiers
def _clause_in(v, params):
    return v.get("clause") in params.get("clauses", [])


def _mechanism(v, params):
    """witness['mechanism'] (set by the check from what it observed) equals
    the recorded mechanism name and the clause is one of the listed ones."""
    w = v.get("witness") or {}
    return (w.get("mechanism") == params.get("mechanism")
            and (not params.get("clauses")
                 or v.get("clause") in params["clauses"]))


CLASSIFIERS = {
    "clause_in": _clause_in,
    "mechanism": _mechanism,
}


def classify(known, prop, violation):
    for fid, ent in known.items():
        if ent.get("property") != prop:
            continue
        if not str(ent.get("status", "open")).startswith("open"):
            continue
        fn = CLASSIFIERS.get(ent.get("classifier"))
        if fn is not None and fn(violation, ent.get("params", {})):
            return fid
    return None
