"""Exact rational arithmetic references (fractions.Fraction): KKT matrix of
the least-Frobenius-norm interpolation problem, its exact solution, exact
evaluation of a cobyqa Quadratic from its float coefficients, exact
determinants.  Floats are converted exactly (Fraction(float))."""
from fractions import Fraction as Fr


def frv(a):
    return [Fr(float(v)) for v in a]


def points_of(xpt):
    """xpt: float array (n, npt) -> list of npt points (lists of Fractions)."""
    n, npt = xpt.shape
    return [[Fr(float(xpt[r, k])) for r in range(n)] for k in range(npt)]


def kkt(X):
    """KKT matrix W of the LFN problem for points X (list of npt points)."""
    npt = len(X)
    n = len(X[0])
    N = npt + n + 1
    W = [[Fr(0)] * N for _ in range(N)]
    for i in range(npt):
        for j in range(i, npt):
            d = sum(a * b for a, b in zip(X[i], X[j]))
            W[i][j] = W[j][i] = d * d / 2
        W[i][npt] = Fr(1)
        W[npt][i] = Fr(1)
        for r in range(n):
            W[i][npt + 1 + r] = X[i][r]
            W[npt + 1 + r][i] = X[i][r]
    return W


def det(A):
    A = [row[:] for row in A]
    n = len(A)
    d = Fr(1)
    for c in range(n):
        p = next((r for r in range(c, n) if A[r][c] != 0), None)
        if p is None:
            return Fr(0)
        if p != c:
            A[c], A[p] = A[p], A[c]
            d = -d
        d *= A[c][c]
        inv = 1 / A[c][c]
        for r in range(c + 1, n):
            if A[r][c] != 0:
                f = A[r][c] * inv
                A[r] = [a - f * b for a, b in zip(A[r], A[c])]
    return d


def solve(A, b):
    """Gauss-Jordan; returns None when singular."""
    n = len(A)
    M = [row[:] + [b[i]] for i, row in enumerate(A)]
    for c in range(n):
        p = next((r for r in range(c, n) if M[r][c] != 0), None)
        if p is None:
            return None
        M[c], M[p] = M[p], M[c]
        inv = 1 / M[c][c]
        M[c] = [v * inv for v in M[c]]
        for r in range(n):
            if r != c and M[r][c] != 0:
                f = M[r][c]
                M[r] = [a - f * bb for a, bb in zip(M[r], M[c])]
    return [M[i][n] for i in range(n)]


def lfn(X, values):
    """Exact least-Frobenius-norm interpolant of `values` on points X
    (relative to the base point): returns (c, g, H) or None if singular."""
    npt = len(X)
    n = len(X[0])
    rhs = list(values) + [Fr(0)] * (n + 1)
    sol = solve(kkt(X), rhs)
    if sol is None:
        return None
    lam = sol[:npt]
    c = sol[npt]
    g = sol[npt + 1:]
    H = [[sum(lam[k] * X[k][i] * X[k][j] for k in range(npt))
          for j in range(n)] for i in range(n)]
    return c, g, H


def model_of(q, xpt):
    """Exact (c, g, H) of a cobyqa Quadratic (explicit + implicit Hessian)
    relative to the base point, from its float coefficients."""
    X = points_of(xpt)
    n = xpt.shape[0]
    c = Fr(float(q._const))
    g = frv(q._grad)
    H = [[Fr(float(q._e_hess[i, j])) for j in range(n)] for i in range(n)]
    for k, xk in enumerate(X):
        lam = Fr(float(q._i_hess[k]))
        if lam != 0:
            for i in range(n):
                for j in range(n):
                    H[i][j] += lam * xk[i] * xk[j]
    return c, g, H


def evaluate(model, d):
    """model (c, g, H) at displacement d (list of Fractions)."""
    c, g, H = model
    n = len(d)
    val = c + sum(g[i] * d[i] for i in range(n))
    val += sum(H[i][j] * d[i] * d[j] for i in range(n) for j in range(n)) / 2
    return val


def shift(model, s):
    """Re-expand (c, g, H) around base + s."""
    c, g, H = model
    n = len(s)
    c2 = evaluate(model, s)
    g2 = [g[i] + sum(H[i][j] * s[j] for j in range(n)) for i in range(n)]
    return c2, g2, H
