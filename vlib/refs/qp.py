"""Exact minimisers of the C04 reference families (independent of cobyqa):
closed forms and active-set enumeration.  f(x) = 0.5 (x-c)'Q(x-c) + g'x."""
import itertools

import numpy as np


def unconstrained(q, c, g):
    return c - np.linalg.solve(q, g)


def box(q, c, g, lb, ub):
    """Active-set enumeration over {free, at lower, at upper}^n (n <= 5)."""
    n = c.size
    best = None
    for pattern in itertools.product((0, -1, 1), repeat=n):
        pat = np.array(pattern)
        if np.any((pat == -1) & ~np.isfinite(lb)) or \
                np.any((pat == 1) & ~np.isfinite(ub)):
            continue
        x = np.empty(n)
        x[pat == -1] = lb[pat == -1]
        x[pat == 1] = ub[pat == 1]
        free = pat == 0
        if np.any(free):
            # gradient Q(x-c)+g = 0 on the free variables
            rhs = -(g[free] + q[np.ix_(free, ~free)] @ (x[~free] - c[~free]))
            x[free] = c[free] + np.linalg.solve(q[np.ix_(free, free)], rhs)
        if np.any(x < lb - 1e-12) or np.any(x > ub + 1e-12):
            continue
        grad = q @ (x - c) + g
        if np.any(grad[pat == -1] < -1e-10) or np.any(grad[pat == 1] > 1e-10):
            continue
        val = 0.5 * (x - c) @ q @ (x - c) + g @ x
        if best is None or val < best[0]:
            best = (val, x)
    return best[1]


def equality(q, c, g, a, b):
    n = c.size
    m = a.shape[0]
    kkt = np.block([[q, a.T], [a, np.zeros((m, m))]])
    rhs = np.concatenate([q @ c - g, b])
    sol = np.linalg.solve(kkt, rhs)
    return sol[:n]


def interval_1d(q, c, g, lo, hi):
    x = c - g / q
    return float(min(max(x, lo), hi))


def linear_ball(g, c, r):
    return c - r * g / np.linalg.norm(g)
