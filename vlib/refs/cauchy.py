"""Straight-line projected-gradient Cauchy step of the bound-constrained
trust-region subproblem  min g's + s'Hs/2,  xl <= s <= xu, |s| <= delta
(reference for property C16; written from the textbook definition)."""
import numpy as np


def cauchy_step(g, hess_prod, xl, xu, delta):
    xl = np.minimum(xl, 0.0)
    xu = np.maximum(xu, 0.0)
    free = ((xl < 0.0) | (g < 0.0)) & ((xu > 0.0) | (g > 0.0))
    d = np.where(free, -g, 0.0)
    nd = float(np.linalg.norm(d))
    if nd == 0.0 or not np.isfinite(nd):
        return np.zeros_like(g), 0.0
    tmax = delta / nd
    with np.errstate(divide="ignore", invalid="ignore", over="ignore"):
        for i in range(g.size):
            if d[i] > 0.0 and np.isfinite(xu[i]):
                tmax = min(tmax, xu[i] / d[i])
            elif d[i] < 0.0 and np.isfinite(xl[i]):
                tmax = min(tmax, xl[i] / d[i])
    gd = float(g @ d)
    c = float(d @ hess_prod(d))
    t = tmax if c <= 0.0 else min(tmax, -gd / c)
    s = t * d
    s = np.clip(s, xl, xu)
    return s, nd
