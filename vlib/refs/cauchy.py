"""Straight-line projected-gradient Cauchy step of the bound-constrained
trust-region subproblem  min g's + s'Hs/2,  xl <= s <= xu, |s| <= delta
(reference for property C16; written from the textbook definition)."""
import numpy as np


def cauchy_step(g, hess_prod, xl, xu, delta):
    xl = np.minimum(xl, 0.0)
    xu = np.maximum(xu, 0.0)
    free = ((xl < 0.0) | (g < 0.0)) & ((xu > 0.0) | (g > 0.0))
    d = np.where(free, -g, 0.0)
    nd = float(np.linalg.norm(d))
    if nd == 0.0 or not np.isfinite(nd):
        return np.zeros_like(g), 0.0
    tmax = delta / nd
    with np.errstate(divide="ignore", invalid="ignore", over="ignore"):
        for i in range(g.size):
            if d[i] > 0.0 and np.isfinite(xu[i]):
                tmax = min(tmax, xu[i] / d[i])
            elif d[i] < 0.0 and np.isfinite(xl[i]):
                tmax = min(tmax, xl[i] / d[i])
    gd = float(g @ d)
    c = float(d @ hess_prod(d))
    t = tmax if c <= 0.0 else min(tmax, -gd / c)
    s = t * d
    s = np.clip(s, xl, xu)
    return s, nd


def path_end_linear(g, xl, xu, delta):
    """End point of the projected-gradient PATH  s(t) = clip(-t*g, xl, xu),
    t >= 0, stopped on the trust-region boundary or when no component moves
    any more.  For a LINEAR model (H = 0) the model decreases monotonically
    along this path, so its end point is the (generalised) Cauchy point."""
    g = np.asarray(g, dtype=float)
    xl = np.minimum(np.asarray(xl, dtype=float), 0.0)
    xu = np.maximum(np.asarray(xu, dtype=float), 0.0)
    d = -g
    n = g.size
    tb = np.full(n, np.inf)
    with np.errstate(divide="ignore", invalid="ignore", over="ignore"):
        for i in range(n):
            if d[i] > 0.0:
                tb[i] = xu[i] / d[i]
            elif d[i] < 0.0:
                tb[i] = xl[i] / d[i]
    moving = d != 0.0
    t_prev = 0.0
    s = np.zeros(n)
    for t_next in sorted(set(tb[moving].tolist()) | {np.inf}):
        mv = moving & (tb > t_prev)
        if not np.any(mv):
            break
        fixed_sq = float(np.sum(s[~mv] ** 2))
        dm_sq = float(np.sum(d[mv] ** 2))
        rem = delta * delta - fixed_sq
        if rem <= 0.0:
            break
        t_star = float(np.sqrt(rem / dm_sq))
        t_end = min(t_star, t_next)
        if not np.isfinite(t_end):
            break
        s = np.where(mv, np.clip(t_end * d, xl, xu), s)
        if t_star <= t_next:
            break
        t_prev = t_next
    return s
