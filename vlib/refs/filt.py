"""Executable model of the point-selection rule (property C03), written from
the documented statement, independent of cobyqa's code.

Only the clauses the statement fixes are demanded; everything else is
accepted (see DESIGN.md, C03)."""
import math


def _nan(v):
    return isinstance(v, float) and math.isnan(v) or (v != v)


def judge(history, pen, tol, ret, delta=0.0, slacks=None):
    """history: list of (f, v) for ALL evaluated points (raw objective value,
    true violation).  ret: the (f, v) pair of the returned point.
    delta: slack on violations (rounding of transformed evaluation).

    Returns (verdict, clause, msg); verdict in 'ok', 'bad', 'ambiguous'."""
    rf, rv = ret
    if delta > 0.0:
        # slacks: per-point rounding slack of the violation (a point whose
        # violation is computed without any rounding, e.g. an exact zero,
        # is never knife-edge); without it the global slack is used
        for j, (f, v) in enumerate(history):
            d = delta if slacks is None else slacks[j]
            if not _nan(v) and d > 0.0 and abs(v - tol) <= d:
                return "ambiguous", "knife-edge", "violation within slack of tol"
    feas_def = [(f, v) for f, v in history
                if not _nan(v) and v <= tol and not _nan(f)]
    feas_any = [(f, v) for f, v in history if not _nan(v) and v <= tol]
    if feas_def:
        fmin = min(f for f, v in feas_def)
        if _nan(rv) or rv > tol + delta:
            return "bad", "S1.feasible", (
                f"a feasible defined point exists (f={fmin}) but the returned "
                f"point has violation {rv} > tol {tol}")
        if _nan(rf) or rf != fmin:
            return "bad", "S1.least_objective", (
                f"returned objective {rf} is not the least feasible objective "
                f"{fmin}")
        vmin = min(v for f, v in feas_def if f == fmin)
        if rv > vmin + 2 * delta + 1e-300:
            return "bad", "S1.tie_violation", (
                f"tie on objective {fmin}: returned violation {rv} > least "
                f"{vmin}")
        return "ok", "S1", ""
    if feas_any:
        return "ok", "S3", ""
    # no feasible point
    merits = []
    for f, v in history:
        if _nan(v) or math.isinf(v) or _nan(f):
            continue
        m = f + pen * v
        if _nan(m):
            continue
        merits.append((m, v, f))
    if not merits:
        return "ok", "S4", ""
    if _nan(rf) or _nan(rv):
        return "bad", "S2.nan_returned", (
            f"returned pair ({rf}, {rv}) is undefined although "
            f"{len(merits)} evaluated points have a defined merit")
    mmin = min(m for m, v, f in merits)
    if math.isinf(rv):
        return "bad", "S2.least_merit", (
            f"returned violation {rv} infinite while defined merits exist")
    rm = rf + pen * rv
    slack = 2.0 * pen * delta + 8e-16 * max(abs(mmin), abs(rm)) \
        if math.isfinite(mmin) and math.isfinite(rm) else 0.0
    if _nan(rm) or rm > mmin + slack:
        return "bad", "S2.least_merit", (
            f"returned merit {rm} (f={rf}, v={rv}, penalty={pen}) exceeds the "
            f"least defined merit {mmin}")
    # domination (beyond the slack on violations)
    d2 = 2.0 * delta
    for f, v in history:
        if _nan(f) or _nan(v):
            continue
        if f <= rf and v <= rv - d2 and (f < rf or v < rv - d2):
            return "bad", "S2.dominated", (
                f"returned pair ({rf}, {rv}) is dominated by the "
                f"evaluated pair ({f}, {v})")
    # ties on merit
    ties = [(m, v, f) for m, v, f in merits if m <= mmin + slack]
    vmin = min(v for m, v, f in ties)
    if delta == 0.0 and slack == 0.0:
        if rv > vmin:
            return "bad", "S2.tie_violation", (
                f"tie on merit {mmin}: returned violation {rv} > least {vmin}")
        fmin = min(f for m, v, f in ties if v == vmin)
        if rf > fmin:
            return "bad", "S2.tie_objective", (
                f"tie on merit and violation: returned objective {rf} > "
                f"least {fmin}")
    return "ok", "S2", ""


def simulate_filter(history, filter_size):
    """Retained set as documented: a point enters iff no retained point
    weakly dominates it... modelled exactly like the documented rule:
    insert iff not dominated (NaN-aware: a defined pair is never blocked by an
    undefined one), drop retained entries the newcomer weakly dominates, then
    FIFO beyond the size.  Returns list of indices retained."""
    kept = []
    for i, (f, v) in enumerate(history):
        fn, vn = _nan(f), _nan(v)
        if fn and vn:
            include = len(kept) == 0
        elif fn:
            include = all((_nan(history[k][0]) and v < history[k][1])
                          or _nan(history[k][1]) for k in kept)
        elif vn:
            include = all((_nan(history[k][1]) and f < history[k][0])
                          or _nan(history[k][0]) for k in kept)
        else:
            include = all(_nan(history[k][0]) or _nan(history[k][1])
                          or f < history[k][0] or v < history[k][1]
                          for k in kept)
        if not include:
            continue
        new_kept = []
        for k in kept:
            fk, vk = history[k]
            if fn:
                rem = _nan(fk)
            elif vn:
                rem = _nan(vk)
            else:
                rem = _nan(fk) or _nan(vk) or (f <= fk and v <= vk)
            if not rem:
                new_kept.append(k)
        kept = new_kept + [i]
        if len(kept) > filter_size:
            kept.pop(0)
    return kept
