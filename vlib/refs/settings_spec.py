"""Documented domains, defaults and coupling relations of the 13 options and
20 constants of cobyqa.minimize (from the minimize docstring, settings.py and
the error messages).  Independent table used by the C19 oracle."""
import math
import sys

SQRT_EPS = math.sqrt(sys.float_info.epsilon)
INF = math.inf


def npt_max(n):
    return (n + 1) * (n + 2) // 2


# name: (kind, lo, lo_open, hi, hi_open, default)   kind in float/int/bool
# default may be a callable of n
OPTIONS = {
    "disp": ("bool", None, None, None, None, False),
    "maxfev": ("int", 0, True, INF, True, None),          # default depends
    "maxiter": ("int", 0, True, INF, True, lambda n: 1000 * n),
    "target": ("float", -INF, False, INF, False, -INF),
    "feasibility_tol": ("float", None, None, None, None, SQRT_EPS),
    "radius_init": ("float", 0.0, True, INF, True, 1.0),
    "radius_final": ("float", 0.0, False, INF, True, 1e-6),
    "nb_points": ("int", None, None, None, None, lambda n: 2 * n + 1),
    "scale": ("bool", None, None, None, None, False),
    "filter_size": ("int", 0, True, INF, True, sys.maxsize),
    "store_history": ("bool", None, None, None, None, False),
    "history_size": ("int", 0, True, INF, True, sys.maxsize),
    "debug": ("bool", None, None, None, None, False),
}

CONSTANTS = {
    "decrease_radius_factor": ("float", 0.0, True, 1.0, True, 0.5),
    "increase_radius_factor": ("float", 1.0, True, INF, True, math.sqrt(2.0)),
    "increase_radius_threshold": ("float", 1.0, True, INF, True, 2.0),
    "decrease_radius_threshold": ("float", 1.0, True, INF, True, 1.4),
    "decrease_resolution_factor": ("float", 0.0, True, 1.0, True, 0.1),
    "large_resolution_threshold": ("float", 1.0, True, INF, True, 250.0),
    "moderate_resolution_threshold": ("float", 1.0, True, INF, True, 16.0),
    "low_ratio": ("float", 0.0, True, 1.0, True, 0.1),
    "high_ratio": ("float", 0.0, True, 1.0, True, 0.7),
    "very_low_ratio": ("float", 0.0, True, 1.0, True, 0.01),
    "penalty_increase_threshold": ("float", 1.0, False, INF, True, 1.5),
    "penalty_increase_factor": ("float", 1.0, True, INF, True, 2.0),
    "short_step_threshold": ("float", 0.0, True, 1.0, True, 0.5),
    "low_radius_factor": ("float", 0.0, True, 1.0, True, 0.1),
    "byrd_omojokun_factor": ("float", 0.0, True, 1.0, True, 0.8),
    "threshold_ratio_constraints": ("float", 1.0, True, INF, True, 2.0),
    "large_shift_factor": ("float", 0.0, False, INF, True, 10.0),
    "large_gradient_factor": ("float", 1.0, True, INF, True, 10.0),
    "resolution_factor": ("float", 1.0, True, INF, True, 2.0),
    "improve_tcg": ("bool", None, None, None, None, True),
}

# coupled pairs: (a, b, relation) meaning a REL b must hold
COUPLED = [
    ("radius_final", "radius_init", "<="),
    ("low_ratio", "high_ratio", "<="),
    ("decrease_radius_threshold", "increase_radius_factor", "<"),
    ("moderate_resolution_threshold", "large_resolution_threshold", "<="),
    ("penalty_increase_threshold", "penalty_increase_factor", "<="),
]
PARTNER = {}
for _a, _b, _r in COUPLED:
    PARTNER[_a] = _b
    PARTNER[_b] = _a


def in_domain(name, value, n=None):
    """True / False for a supplied value of one setting (numeric kinds)."""
    table = OPTIONS if name in OPTIONS else CONSTANTS
    kind, lo, lo_open, hi, hi_open, _ = table[name]
    if kind == "bool":
        return True
    if value != value:
        return False          # NaN belongs to no documented domain
    if name == "nb_points":
        # 'above (n+1)(n+2)/2 or below n+1' is read on the value as given:
        # 6.5 is above 6 although it truncates to 6
        return n + 1 <= value <= npt_max(n)
    if lo is None:
        return True
    if kind == "int":
        if value in (INF, -INF):
            return False      # no integer: 'unlimited' is not a documented value
        value = int(value)    # sizes / limits are integers: 0.5 means 0
    if lo_open and not value > lo:
        return False
    if not lo_open and not value >= lo:
        return False
    if hi_open and not value < hi:
        return False
    if not hi_open and not value <= hi:
        return False
    return True


def rel_holds(a, b, rel):
    return a <= b if rel == "<=" else a < b


def lattice(name, n=None):
    """Boundary lattice of one numeric setting: list of (position, value)."""
    table = OPTIONS if name in OPTIONS else CONSTANTS
    kind, lo, lo_open, hi, hi_open, default = table[name]
    nx = math.nextafter
    out = []
    if kind == "bool":
        return [("false", False), ("true", True)]
    if name == "nb_points":
        lo_, hi_ = n + 1, npt_max(n)
        return [("below", lo_ - 1), ("at_lo", lo_), ("typical", min(
            2 * n + 1, hi_)), ("at_hi", hi_), ("above", hi_ + 1), ("zero", 0),
            ("negative", -3), ("above_fraction", hi_ + 0.5),
            ("below_fraction", lo_ - 0.5), ("inf", INF)]
    if kind == "int":
        return [("below", -1), ("at", 0), ("just_inside", 1), ("typical", 40),
                ("large", 10**6), ("fraction", 0.5), ("nan", math.nan),
                ("inf", INF)]
    if name == "target":
        return [("-inf", -INF), ("typical", 0.5), ("inf", INF)]
    if name == "feasibility_tol":
        return [("typical", 1e-6), ("zero", 0.0)]
    typical = default if not callable(default) else 1.0
    out.append(("below", lo - 1.0 if math.isfinite(lo) else None))
    out.append(("at_lo", lo))
    out.append(("just_inside_lo", nx(lo, INF)))
    out.append(("typical", typical))
    if math.isfinite(hi):
        out.append(("just_inside_hi", nx(hi, -INF)))
        out.append(("at_hi", hi))
        out.append(("above", hi + 1.0))
    else:
        out.append(("huge", 1e12))
        out.append(("inf", INF))
    out.append(("nan", math.nan))
    return [(p, v) for p, v in out if v is not None]


def defaults(n, npt=None):
    o = {}
    for k, spec in OPTIONS.items():
        d = spec[5]
        o[k] = d(n) if callable(d) else d
    npt = npt if npt is not None else o["nb_points"]
    o["maxfev"] = max(500 * n, npt + 1)
    c = {k: spec[5] for k, spec in CONSTANTS.items()}
    return o, c
