"""Reference for the translation of two-sided user constraints (C17),
written from the statement of the property.

Per component (lb, ub, value v), judged with the component's OWN magnitudes:
 * a side is *absent* when its limit is NaN or infinite;
 * lb == ub exactly                ->  one equality at that level;
 * both finite, 0 < |ub - lb| <= CUSHION * tol_i with
   tol_i = 10*eps*max(m,1)*max(1,|lb_i|,|ub_i|)   ("lb = ub to rounding",
   with a cushion of three decades)  ->  either reading is accepted (one
   equality at the midpoint, or two inequalities); the two readings differ by
   at most half the gap, which is the slack granted;
 * otherwise                        ->  one inequality per present side,
   violation max(0, lb-v, v-ub).  A component whose limits differ by more
   than rounding of ITS OWN magnitude must not become an equality because a
   sibling component of the same object has huge limits.
A limit that is infinite *in the wrong direction* (lb=+inf, ub=-inf) makes the
statement self-contradictory (interval semantics says infinite violation, the
documented neutralisation says the limit is dropped): such components are
reported as ambiguous and both readings are accepted."""
import numpy as np

EPS = np.finfo(float).eps
CUSHION = 1e3


def comp_tol(lo, hi, m):
    return 10.0 * EPS * max(m, 1) * max(1.0, abs(lo), abs(hi))


def expected(lb, ub, v):
    """Returns dict(viol=max violation (lower reading), viol_alt=upper
    reading, n_ub, n_eq (for exact equalities only), zone=number of
    components for which either reading is accepted, ambiguous, half=slack
    for those components, scale=magnitude of the components that can
    contribute to the maximum)."""
    lb = np.asarray(lb, dtype=float)
    ub = np.asarray(ub, dtype=float)
    v = np.asarray(v, dtype=float)
    m = lb.size
    n_ub = n_eq = zone = 0
    viol = 0.0
    alt = 0.0
    half = 0.0
    scale = 1.0
    ambiguous = False
    nanv = False
    for lo, hi, val in zip(lb, ub, v):
        fin = [abs(t) for t in (lo, hi) if np.isfinite(t)]
        inside = True
        for side, t in (("lo", lo), ("hi", hi)):
            if np.isfinite(t) and np.isfinite(val):
                d = 16 * EPS * max(abs(val), abs(t), 1e-300)
                if (side == "lo" and val < lo + d) or \
                        (side == "hi" and val > hi - d):
                    inside = False
        if np.isnan(val):
            inside = False
        if not inside and fin:
            scale = max(scale, abs(val) if np.isfinite(val) else 0.0, *fin)
        if np.isfinite(lo) and np.isfinite(hi):
            gap = abs(hi - lo)
            if gap == 0.0:
                n_eq += 1
                c = abs(val - lo)
                if np.isnan(c):
                    nanv = True
                else:
                    viol = max(viol, c)
                    alt = max(alt, c)
                continue
            if gap <= CUSHION * comp_tol(lo, hi, m):
                zone += 1
                half = max(half, 0.5 * gap)
                scale = max(scale, *fin)
        for side, lim in (("lo", lo), ("hi", hi)):
            if np.isnan(lim):
                continue
            if np.isinf(lim):
                if (side == "lo" and lim > 0) or (side == "hi" and lim < 0):
                    ambiguous = True
                    alt = np.inf
                continue
            n_ub += 1
            c = (lim - val) if side == "lo" else (val - lim)
            if np.isnan(c):
                nanv = True
            else:
                viol = max(viol, c, 0.0)
                alt = max(alt, c, 0.0)
    return {"viol": viol, "viol_alt": alt, "n_ub": n_ub, "n_eq": n_eq,
            "zone": zone, "ambiguous": ambiguous, "half": half, "nan": nanv,
            "scale": scale}


def counts_ok(got_ub, got_eq, n_ub, n_eq, zone):
    """Row counts: every zone component is either one equality or two
    inequalities (n_ub counts them as two inequalities)."""
    k = got_eq - n_eq
    return 0 <= k <= zone and got_ub == n_ub - 2 * k
