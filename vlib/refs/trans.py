"""Reference for the translation of two-sided user constraints (C17),
written from the documented statement.

Per component (lb, ub, value v):
 * a side is *absent* when its limit is NaN or infinite;
 * both finite and |ub - lb| <= tol  ->  one equality at the midpoint,
   violation |v - mid| (tol = 10*eps*max(size,1)*max(1, |finite limits|),
   the documented size- and magnitude-dependent tolerance);
 * otherwise one inequality per present side, violation max(0, lb-v, v-ub).
A limit that is infinite *in the wrong direction* (lb=+inf, ub=-inf) makes the
statement self-contradictory (interval semantics says infinite violation, the
documented neutralisation says the limit is dropped): such components are
reported as ambiguous and both readings are accepted."""
import numpy as np

EPS = np.finfo(float).eps


def tol_of(lb, ub):
    both = np.concatenate([np.ravel(lb), np.ravel(ub)]).astype(float)
    fin = both[np.isfinite(both)]
    w = max(1.0, float(np.max(np.abs(fin)))) if fin.size else 1.0
    return 10.0 * EPS * max(np.size(lb), np.size(ub), 1) * w


def expected(lb, ub, v):
    """Returns dict(viol=max violation (lower reading), viol_alt=upper
    reading, n_ub, n_eq, ambiguous, half=slack for equality detection)."""
    lb = np.asarray(lb, dtype=float)
    ub = np.asarray(ub, dtype=float)
    v = np.asarray(v, dtype=float)
    tol = tol_of(lb, ub)
    n_ub = n_eq = 0
    viol = 0.0
    alt = 0.0
    ambiguous = False
    nanv = False
    for lo, hi, val in zip(lb, ub, v):
        if np.isfinite(lo) and np.isfinite(hi) and abs(hi - lo) <= tol:
            n_eq += 1
            c = abs(val - 0.5 * (lo + hi))
            if np.isnan(c):
                nanv = True
            else:
                viol = max(viol, c)
                alt = max(alt, c)
            continue
        for side, lim in (("lo", lo), ("hi", hi)):
            if np.isnan(lim):
                continue
            if np.isinf(lim):
                if (side == "lo" and lim > 0) or (side == "hi" and lim < 0):
                    ambiguous = True
                    alt = np.inf
                continue
            n_ub += 1
            c = (lim - val) if side == "lo" else (val - lim)
            if np.isnan(c):
                nanv = True
            else:
                viol = max(viol, c, 0.0)
                alt = max(alt, c, 0.0)
    return {"viol": viol, "viol_alt": alt, "n_ub": n_ub, "n_eq": n_eq,
            "ambiguous": ambiguous, "half": 0.5 * tol, "nan": nanv}
