"""Case scheduling over worker subprocesses, aggregation, verdict, evidence.

A check module (``checks/cNN.py``) provides

    ID, TITLE, RULE (how cases are made / what is non-trivial), ASSUMPTIONS,
    cases(tier, seed) -> list of JSON-able case dicts (each with 'id'),
    run_case(case) -> record dict (see below),
    REQUIRED (dict: counter name -> minimum total, else INCONCLUSIVE),
    MIN_NONTRIVIAL (int), optional finish(agg) -> extra coverage dict.

Record: {'case', 'violations': [ {clause, msg, witness} ], 'gray': int,
'nt': str|None, 'tags': [...], 'counts': {...}, 'sample': obj|None,
'max': {...}, 'skipped': bool}

Exit codes: 0 held, 1 violation not covered by a known finding, 3
inconclusive (monitor not reached / worker failure).  A wall-clock watchdog
firing is *inconclusive*, never a violation.
"""
import importlib
import json
import os
import shutil
import subprocess
import sys
import tempfile
import time
import traceback
from collections import Counter

from . import boot, evidence, findings
from .problems import jsonable

NPROC = int(os.environ.get("VERIF_NPROC", "16"))
CASE_TIMEOUT = int(os.environ.get("VERIF_CASE_TIMEOUT", "300"))


def load(check_id):
    return importlib.import_module("checks." + check_id.lower())


# ------------------------------------------------------------------- worker
class _CaseTimeout(Exception):
    pass


def worker_main(argv):
    import signal

    check_id, shard_path, out_path = argv
    boot.setup()
    mod = load(check_id)
    with open(shard_path) as fh:
        cases = json.load(fh)
    if hasattr(mod, "worker_init"):
        mod.worker_init()

    def on_alarm(signum, frame):
        raise _CaseTimeout()

    signal.signal(signal.SIGALRM, on_alarm)
    with open(out_path, "w") as out:
        for case in cases:
            t0 = time.perf_counter()
            try:
                signal.alarm(int(case.get("timeout", CASE_TIMEOUT)))
                rec = mod.run_case(case)
                signal.alarm(0)
            except _CaseTimeout:
                rec = {"case": case["id"], "harness_timeout": True}
            except BaseException:  # noqa: BLE001 harness failure
                signal.alarm(0)
                rec = {"case": case["id"],
                       "harness_error": traceback.format_exc()[-3000:]}
            rec.setdefault("case", case["id"])
            rec["wall"] = time.perf_counter() - t0
            out.write(json.dumps(jsonable(rec)) + "\n")
            out.flush()
    return 0


# ------------------------------------------------------------------- parent
def run_check(check_id, tier, seed, only_case=None):
    t0 = time.perf_counter()
    boot.setup()
    mod = load(check_id)
    cases = mod.cases(tier, seed)
    if only_case is not None:
        cases = [c for c in cases if c["id"] == only_case]
    nshard = max(1, min(NPROC, len(cases)))
    tmp = tempfile.mkdtemp(prefix=f"verif-{check_id}-")
    procs = []
    try:
        for s in range(nshard):
            shard = cases[s::nshard]
            sp = os.path.join(tmp, f"shard{s}.json")
            op = os.path.join(tmp, f"out{s}.jsonl")
            with open(sp, "w") as fh:
                json.dump(shard, fh)
            env = dict(os.environ)
            env["PYTHONPATH"] = boot.VERIF + os.pathsep + boot.REPO
            env.setdefault("PYTHONHASHSEED", "0")
            # stdout of the workers is discarded (disp=True cases print) and
            # stderr goes to a file: a full pipe would block a worker
            ep = os.path.join(tmp, f"err{s}.txt")
            p = subprocess.Popen(
                [sys.executable, "-m", "vlib.worker", check_id, sp, op],
                cwd=boot.VERIF, env=env,
                stdout=subprocess.DEVNULL, stderr=open(ep, "w"), text=True)
            procs.append((p, op, len(shard), ep))
        budget = getattr(mod, "WALL_BUDGET", {}).get(tier, 3600)
        records = []
        worker_fail = []
        for p, op, nsh, ep in procs:
            left = max(5.0, budget - (time.perf_counter() - t0))
            try:
                p.wait(timeout=left)
            except subprocess.TimeoutExpired:
                p.kill()
                p.wait()
                worker_fail.append(f"worker watchdog fired after {budget}s")
            try:
                with open(ep) as fh:
                    se = fh.read()
            except OSError:
                se = ""
            if p.returncode not in (0, None) and p.returncode != -9:
                worker_fail.append(
                    f"worker exit {p.returncode}: {se[-1500:]}")
            got = 0
            if os.path.exists(op):
                with open(op) as fh:
                    for line in fh:
                        line = line.strip()
                        if line:
                            records.append(json.loads(line))
                            got += 1
            if got < nsh and p.returncode == 0:
                worker_fail.append(f"worker wrote {got}/{nsh} records")
    finally:
        shutil.rmtree(tmp, ignore_errors=True)
    return finish(mod, check_id, tier, seed, cases, records, worker_fail,
                  time.perf_counter() - t0)


def finish(mod, check_id, tier, seed, cases, records, worker_fail, wall):
    by_id = {c["id"]: c for c in cases}
    counts = Counter()
    tags = Counter()
    maxes = {}
    nt = set()
    samples = []
    gray = 0
    skipped = 0
    harness_errors = []
    timeouts = []
    viol = []
    for r in records:
        if r.get("harness_error"):
            harness_errors.append((r["case"], r["harness_error"]))
            continue
        if r.get("harness_timeout"):
            timeouts.append(r["case"])
            continue
        counts.update(r.get("counts", {}))
        tags.update(r.get("tags", []))
        for k, v in r.get("max", {}).items():
            if v is not None and (k not in maxes or v > maxes[k]):
                maxes[k] = v
        key = r.get("nt")
        if isinstance(key, list):
            nt.update(key)
        elif key:
            nt.add(key)
        gray += int(r.get("gray", 0))
        skipped += 1 if r.get("skipped") else 0
        if r.get("sample") is not None and len(samples) < 3:
            samples.append(r["sample"])
        for v in r.get("violations", []):
            viol.append((r["case"], v))

    # ---- classify violations against the committed known findings
    known = findings.load()
    hit = {}
    new = []
    for case_id, v in viol:
        fid = findings.classify(known, check_id, v)
        if fid is None:
            new.append((case_id, v))
        else:
            hit.setdefault(fid, []).append((case_id, v))

    lines = []
    for fid, items in hit.items():
        ent = known[fid]
        lines.append(f"KNOWN-FINDING: property={check_id} {ent['what_fails']}"
                     f" [{fid}; {len(items)} occurrence(s) this run]")
    replay_dir = os.path.join(boot.VERIF, "evidence", "replays")
    os.makedirs(replay_dir, exist_ok=True)
    for old in os.listdir(replay_dir):
        if old.startswith(check_id + "-"):
            os.remove(os.path.join(replay_dir, old))
    seen_cases = set()
    nprinted = 0
    for case_id, v in new:
        if case_id in seen_cases:
            continue
        seen_cases.add(case_id)
        path = os.path.join(replay_dir, f"{check_id}-{case_id}.json")
        with open(path, "w") as fh:
            json.dump(jsonable({
                "property": check_id, "tier": tier, "seed": seed,
                "case": by_id.get(case_id),
                "violations": [x for c, x in new if c == case_id][:5],
            }), fh, indent=1)
        if nprinted < 25:
            lines.append(f"VIOLATION property={check_id} replay={path}")
            lines.append(f"  clause={v.get('clause')} :: {str(v.get('msg'))[:300]}")
            nprinted += 1
    if new:
        hist = Counter((v.get("clause"), (v.get("witness") or {}).get(
            "mechanism")) for _, v in new)
        for (cl, mech), cnt in hist.most_common(20):
            lines.append(f"  new-violation clause={cl} mechanism={mech} "
                         f"count={cnt}")
    if len(seen_cases) > nprinted:
        lines.append(f"  ... and {len(seen_cases) - nprinted} more violating "
                     f"cases (replays written)")

    # ---- inconclusive?
    inconclusive = []
    for name, minimum in getattr(mod, "REQUIRED", {}).items():
        if counts.get(name, 0) < minimum:
            inconclusive.append(
                f"monitor '{name}' fired {counts.get(name, 0)} < {minimum}")
    min_nt = getattr(mod, "MIN_NONTRIVIAL", 2)
    if isinstance(min_nt, dict):
        min_nt = min_nt.get(tier, 2)
    if len(nt) < min_nt:
        inconclusive.append(f"only {len(nt)} distinct non-trivial cases "
                            f"(< {min_nt})")
    if harness_errors:
        inconclusive.append(f"{len(harness_errors)} harness errors; first: "
                            f"{harness_errors[0][0]}: "
                            f"{harness_errors[0][1][-800:]}")
    if timeouts:
        inconclusive.append(f"{len(timeouts)} cases hit the wall-clock "
                            f"watchdog: {timeouts[:5]}")
    if worker_fail:
        inconclusive.append("; ".join(worker_fail)[:1500])
    if len(records) < len(cases):
        inconclusive.append(f"{len(cases) - len(records)} cases produced no "
                            f"record")

    agg = {
        "counts": dict(counts), "tags": dict(tags), "max": maxes,
        "nt": nt, "gray": gray, "skipped": skipped, "samples": samples,
        "records": records,
    }
    extra = {}
    if hasattr(mod, "finish"):
        try:
            extra = mod.finish(agg, tier, seed) or {}
        except Exception:  # noqa: BLE001
            inconclusive.append("finish() failed: " +
                                traceback.format_exc()[-600:])
    for msg in extra.pop("inconclusive", []):
        inconclusive.append(msg)

    verdict = "violation" if new else (
        "inconclusive" if inconclusive else "held")
    cov = {
        "evaluations": len(records),
        "distinct_nontrivial": len(nt),
        "rule": getattr(mod, "RULE", ""),
        "samples": samples or [{"note": "no sample recorded"}],
        "monitor_activations": dict(counts),
        "tags_seen": dict(tags),
        "worst": maxes,
        "gray_zone_events": gray,
        "skipped_cases": skipped,
        "known_findings_hit": {k: len(v) for k, v in hit.items()},
        "verdict": verdict,
        "inconclusive_reasons": inconclusive,
        "exhaustive": bool(getattr(mod, "EXHAUSTIVE", False)),
        "repo": boot.REPO,
    }
    cov.update(extra)
    evidence.write(check_id, tier, seed, cov,
                   getattr(mod, "ASSUMPTIONS", []), wall,
                   len(seen_cases), getattr(mod, "LEVEL", "exploration"))
    for ln in lines:
        print(ln)
    print(f"[{check_id} {tier} seed={seed}] cases={len(records)} "
          f"nontrivial={len(nt)} gray={gray} new_violations={len(seen_cases)} "
          f"known={sum(len(v) for v in hit.values())} verdict={verdict} "
          f"wall={wall:.1f}s")
    if inconclusive and not new:
        for msg in inconclusive:
            print("INCONCLUSIVE:", msg)
    if new:
        return 1
    if inconclusive:
        return 3
    return 0


def replay(path):
    boot.setup()
    with open(path) as fh:
        rp = json.load(fh)
    mod = load(rp["property"])
    if hasattr(mod, "worker_init"):
        mod.worker_init()
    os.environ["VERIF_VERBOSE"] = "1"
    rec = mod.run_case(rp["case"])
    known = findings.load()
    new = [v for v in rec.get("violations", [])
           if findings.classify(known, rp["property"], v) is None]
    print(json.dumps(jsonable({k: rec.get(k) for k in
                               ("case", "violations", "tags", "nt", "gray")}),
                     indent=1)[:6000])
    if new:
        print(f"VIOLATION property={rp['property']} replay={path}")
        return 1
    print("replay: no (new) violation reproduced")
    return 0
