"""Harness-side ground truth, computed in the user's variables from the user's
own objects (never through cobyqa code)."""
import numpy as np

EPS = np.finfo(float).eps


def interval_violation(v, lb, ub):
    """max(0, lb - v, v - ub) component-wise; NaN limits mean no limit."""
    v = np.asarray(v, dtype=float)
    lo = np.where(np.isnan(lb), -np.inf, lb)
    hi = np.where(np.isnan(ub), np.inf, ub)
    with np.errstate(invalid="ignore"):
        a = np.where(np.isneginf(lo), 0.0, lo - v)
        c = np.where(np.isposinf(hi), 0.0, v - hi)
        out = np.maximum(0.0, np.maximum(a, c))
    # NaN values propagate (np.maximum propagates NaN)
    out = np.where(np.isnan(v) & (np.isfinite(lo) | np.isfinite(hi)),
                   np.nan, out)
    return out


CUSHION = 1e3


def eq_tol(lb, ub):
    """Component-wise tolerance below which two limits are 'equal to
    rounding': 10*eps*size*max(1, |lb_i|, |ub_i|) (array)."""
    lb = np.atleast_1d(np.asarray(lb, dtype=float))
    ub = np.atleast_1d(np.asarray(ub, dtype=float))
    w = np.maximum(1.0, np.maximum(np.where(np.isfinite(lb), np.abs(lb), 0.0),
                                   np.where(np.isfinite(ub), np.abs(ub), 0.0)))
    return 10.0 * EPS * max(lb.size, 1) * w


def eq_half(lb, ub):
    """Slack granted per component for reading a pair of limits that are
    equal to rounding (three decades of cushion) as one equality at the
    midpoint: half the gap; zero for all other components."""
    lb = np.atleast_1d(np.asarray(lb, dtype=float))
    ub = np.atleast_1d(np.asarray(ub, dtype=float))
    with np.errstate(invalid="ignore"):
        gap = np.abs(ub - lb)
        near = np.isfinite(gap) & (gap <= CUSHION * eq_tol(lb, ub))
    return np.where(near, 0.5 * gap, 0.0)


def bound_violation(x, lb, ub):
    return interval_violation(x, lb, ub)


def linear_violation(b, x):
    """Vector of violations of all linear rows as the user stated them, and a
    rounding bound for each row."""
    viol = []
    tol = []
    for lc in b.lin:
        a = np.where(np.isnan(lc["A"]), 0.0, lc["A"])
        v = a @ x
        viol.append(interval_violation(v, lc["lb"], lc["ub"]))
        mag = np.abs(a) @ np.abs(x)
        lim = np.maximum(
            np.where(np.isfinite(lc["lb"]), np.abs(lc["lb"]), 0.0),
            np.where(np.isfinite(lc["ub"]), np.abs(lc["ub"]), 0.0))
        tol.append(mag + lim)
    if viol:
        return np.concatenate(viol), np.concatenate(tol)
    return np.zeros(0), np.zeros(0)


def nonlinear_violation(b, values):
    """values: list (per constraint object) of 1-D arrays as returned by the
    user's functions."""
    viol = []
    half = []
    for nc, v in zip(b.nl, values):
        v = np.atleast_1d(np.asarray(v, dtype=float))
        viol.append(interval_violation(v, nc["lb"], nc["ub"]))
        half.append(np.broadcast_to(eq_half(nc["lb"], nc["ub"]),
                                    v.shape).astype(float))
    if viol:
        return np.concatenate(viol), np.concatenate(half)
    return np.zeros(0), np.zeros(0)


def true_maxcv(b, x, nl_values, bounds_consistent=True):
    """True maximum violation at user point x and a sound slack.

    Returns (value, slack).  ``slack`` bounds the difference between any
    correctly rounded evaluation in transformed (reduced / scaled) variables
    and this one.  NaN propagates like numpy's max."""
    parts = [np.zeros(1)]
    slack = 0.0
    bv = bound_violation(x, b.lb, b.ub)
    if not bounds_consistent:
        parts.append(bv)
    lv, lmag = linear_violation(b, x)
    parts.append(lv)
    if lmag.size:
        scale = 1.0
        fin = np.concatenate([b.lb[np.isfinite(b.lb)], b.ub[np.isfinite(b.ub)]])
        if fin.size:
            scale = max(1.0, float(np.max(np.abs(fin))))
        amax = max((float(np.max(np.abs(np.where(np.isnan(lc["A"]), 0.0,
                                                  lc["A"])), initial=0.0))
                    for lc in b.lin), default=0.0)
        slack = max(slack, 64.0 * EPS * (float(np.max(lmag)) +
                                         amax * scale * b.n))
        slack = max([slack] + [float(np.max(eq_half(lc["lb"], lc["ub"]),
                                            initial=0.0)) for lc in b.lin])
    nv, nhalf = nonlinear_violation(b, nl_values)
    parts.append(nv)
    if nv.size:
        fin = nv[np.isfinite(nv)]
        slack = max(slack, float(np.max(nhalf)) + 8.0 * EPS * (
            float(np.max(fin)) if fin.size else 0.0))
    allv = np.concatenate(parts)
    if np.any(np.isnan(allv)):
        return float("nan"), slack
    return float(np.max(allv)), slack


def user_point(b, scale_opt, x_int, project=True):
    """The documented map from the solver's internal (reduced, scaled)
    variables to the user's: variables with lb = ub (to rounding) are held at
    that value; with scale=True and all remaining bounds finite the others
    are x*(ub-lb)/2 + (ub+lb)/2; the result is projected onto the bounds.
    Written from the documentation, independent of Problem.build_x.  Returns
    None when it does not apply (inconsistent bounds, wrong shape)."""
    lb = np.asarray(b.lb, dtype=float)
    ub = np.asarray(b.ub, dtype=float)
    if not np.all(lb <= ub):
        return None
    n = lb.size
    w = np.maximum(1.0, np.maximum(np.where(np.isfinite(lb), np.abs(lb), 0.0),
                                   np.where(np.isfinite(ub), np.abs(ub), 0.0)))
    tol = 10.0 * EPS * max(n, 1) * w
    with np.errstate(invalid="ignore"):
        fixed = (lb <= ub) & (np.abs(lb - ub) < tol)
    x_int = np.asarray(x_int, dtype=float)
    if x_int.shape != (int(np.count_nonzero(~fixed)),):
        return None
    rl, ru = lb[~fixed], ub[~fixed]
    full = np.empty(n)
    full[fixed] = np.clip(0.5 * (lb[fixed] + ub[fixed]), lb[fixed], ub[fixed])
    if scale_opt and rl.size and np.all(np.isfinite(rl)) and \
            np.all(np.isfinite(ru)):
        full[~fixed] = x_int * (0.5 * (ru - rl)) + 0.5 * (ru + rl)
    else:
        full[~fixed] = x_int
    if not project:
        return full
    return np.clip(full, lb, ub)
