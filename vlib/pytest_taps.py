"""pytest plugin: run the repository's own test suite with the taps and the
C12 / C15 / C16 / C18 monitors armed (``pytest -p vlib.pytest_taps``).

Every test runs inside a fresh ``ctx.Run``; what the monitors saw is written
to the JSON file named by $VERIF_TAPS_OUT at the end of the session."""
import json
import os

import pytest

from vlib import boot

boot.setup()

from vlib import ctx, taps, subs  # noqa: E402
from vlib.interp import InterpMonitor  # noqa: E402
from vlib.problems import jsonable  # noqa: E402

_results = {"tests": 0, "viol": [], "hook_errors": 0, "counts": {}}


def _add(counts):
    for k, v in counts.items():
        _results["counts"][k] = _results["counts"].get(k, 0) + v


@pytest.fixture(autouse=True)
def _verif_monitors(request):
    taps.install()
    from checks import c18
    run = ctx.Run(label=request.node.nodeid)
    im = InterpMonitor(check_values=False)
    im.attach(run)
    tm = c18.Monitor()
    tm.attach(run, None)
    col = subs.Collector()

    def on_sub(r, name, args, kwargs, out):
        subs.collecting(col)
        try:
            with ctx.suspended():
                subs.check_call(name, args, kwargs, out)
        finally:
            subs.collecting(None)

    run.on("sub", on_sub)
    with ctx.active(run):
        yield
    _results["tests"] += 1
    _results["hook_errors"] += len(run.hook_errors)
    _add(im.counts())
    _add({"quiescent_checks": tm.n_q, "centre_checks": tm.n_centre,
          "subproblem_postconditions": col.checked,
          "tap_events": sum(run.counts.values())})
    for v in im.viols:
        _results["viol"].append(dict(v, property="C12",
                                     test=request.node.nodeid))
    for v in tm.viols:
        _results["viol"].append(dict(v, property="C18",
                                     test=request.node.nodeid))
    for p, clause, msg, w in col.viol:
        _results["viol"].append({"property": p, "clause": clause, "msg": msg,
                                 "witness": w, "test": request.node.nodeid})


def pytest_sessionfinish(session, exitstatus):
    out = os.environ.get("VERIF_TAPS_OUT")
    if out:
        with open(out, "w") as fh:
            json.dump(jsonable(_results), fh)
