import sys

from .runner import worker_main

if __name__ == "__main__":
    sys.exit(worker_main(sys.argv[1:]))
