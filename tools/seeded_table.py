#!/venv/bin/python
"""Regenerates /verif/seeded/README.md (catch matrix of the seeded changes)."""
import glob, json, os
ROOT = os.path.dirname(os.path.dirname(os.path.abspath(__file__)))
final = {}
rp = os.path.join(ROOT, "seeded", "RECHECK.txt")
if os.path.exists(rp):
    for line in open(rp):
        parts = line.strip().split(" ", 1)
        if len(parts) == 2:
            final[parts[0]] = parts[1]
rows = []
for d in sorted(glob.glob(os.path.join(ROOT, "seeded", "*", ""))):
    p = os.path.join(d, "meta.json")
    if not os.path.exists(p):
        continue
    m = json.load(open(p))
    what = (m.get("what_it_breaks") or m.get("title") or "").replace("|", "/").replace("\n", " ")
    need = (m.get("needs_to_manifest") or "").replace("|", "/").replace("\n", " ")
    rows.append(f"| {m['seeded_id']} | {', '.join(m.get('files', []))[:48]} | {what[:170]} | {need[:150]} | "
                f"{str(m.get('caught_by')).strip('[]').replace(chr(39), '')} | "
                f"{final.get(m['seeded_id'], '')} |")
out = ["# Seeded changes (independent sub-agents) and the checks that catch them", "",
       f"{len(rows)} changes; each passes the repository's own test suite, each demo fails with the change and",
       "passes without it (see meta.json / result.txt in each directory). `caught by` = quick-tier checks",
       "(seed 0) that exit 1 on a scratch copy of /repo with the change applied (`tools/seed_eval.sh`) AT THE",
       "TIME THE CHANGE WAS DELIVERED (NONE = missed then; the check was strengthened afterwards, DESIGN 9.7-9.14).",
       "`now` = result of `tools/seeded_recheck.sh` on the final tree and final checks (seeded/RECHECK.txt).", "",
       "| id | files | what it breaks | needs to manifest | caught by (first evaluation) | now |",
       "|----|-------|----------------|-------------------|-----------|-----|"] + rows
open(os.path.join(ROOT, "seeded", "README.md"), "w").write("\n".join(out) + "\n")
print(len(rows), "rows")
