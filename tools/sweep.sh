#!/bin/bash
# usage: tools/sweep.sh <tier> <seed list> <check list>   e.g. tools/sweep.sh thorough "0 1" "C01 C02"
cd "$(dirname "$0")/.."
tier="$1"; seeds="$2"; checks="$3"
for s in $seeds; do for c in $checks; do
  echo "=== $c $tier seed=$s"
  VERIF_SEED=$s ./check $c $tier 2>&1 | grep -E "new-violation|^\[|^INCON|^VIOL|^  clause" | cut -c1-260 | head -12
done; done
