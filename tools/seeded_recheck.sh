#!/bin/bash
# usage: tools/seeded_recheck.sh [<seeded id> ...]
# Re-applies every stored seeded change to a scratch copy of the CURRENT /repo
# tree and runs the quick tier of its target check against it.  One line per
# change: CAUGHT / MISSED / PATCH-FAILED (patch no longer applies because a
# later fix: commit touched the same lines).
cd "$(dirname "$0")/.."
ids="$@"
[ -z "$ids" ] && ids=$(ls seeded | grep -E '^C[0-9]+-[A-Z]$')
for id in $ids; do
  chk=${id%%-*}
  out=$(tools/try_mutant.py --skip-tests seeded/$id/patch.diff $chk 2>&1)
  if echo "$out" | grep -q "PATCH FAILED"; then r="PATCH-FAILED"
  elif echo "$out" | grep -q "CAUGHT BY: \['"; then r="CAUGHT"
  else r="MISSED"; fi
  nv=$(echo "$out" | grep -o "new_violations=[0-9]*" | head -1 | cut -d= -f2)
  echo "$id $r ${nv:+cases=$nv}"
done
