#!/venv/bin/python
"""Re-run the spec stored in a replay file's witness and apply an E2E oracle.
usage: tools/respec.py <replay.json> <c01|c02|c03|c05|c06|c07|c08|c09|c20>"""
import json, sys, os
sys.path.insert(0, os.path.dirname(os.path.dirname(os.path.abspath(__file__))))
from vlib import boot; boot.setup()
from vlib import mrun, oracles, e2e
d = json.load(open(sys.argv[1]))
sp = d["violations"][0]["witness"]["spec"]
rec = mrun.run(sp)
fn = getattr(oracles, "o_" + sys.argv[2])
v, info = fn(rec)
print(e2e.brief(rec))
print(info)
for x in v: print("VIOL", x["clause"], x["msg"][:300])
