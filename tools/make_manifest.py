#!/venv/bin/python
"""Regenerates /verif/MANIFEST.json from the check modules present."""
import importlib
import json
import os
import sys

ROOT = os.path.dirname(os.path.dirname(os.path.abspath(__file__)))
sys.path.insert(0, ROOT)

TECH = {
    "C01": "boundary spies + invariant at Problem.__call__ hook (exact box test, pre-projection excess)",
    "C02": "boundary log vs result; harness recomputation of maxcv from the user's objects",
    "C03": "history + executable reference model of the selection rule (fed sequences and real runs)",
    "C04": "result vs exact minimiser from an independent active-set/closed-form reference",
    "C05": "conservation/counting over the spy log and the evaluation tap",
    "C06": "exactly-once offline checker over the per-function call log",
    "C07": "result vs ground truth from spies and final trust-region state",
    "C08": "outcome monitor under fault injection + logical-step watchdog (sys.monitoring)",
    "C09": "ordering checker with replay-based trigger placement (dry run + rerun)",
    "C10": "metamorphic paired runs compared bitwise + residual bound on transformed data",
    "C11": "repetition, thread-pool interleavings with yield injection, argument and module-state sanitizers",
    "C12": "runtime contract with running error bound on Models mutators (driven histories and real runs)",
    "C13": "one-step check against exact rational least-Frobenius-norm recursion",
    "C14": "function contract on Models.determinants vs exact determinant ratio",
    "C15": "icontract postconditions on the five subsolvers (hostile fuzz + solver-posed subproblems)",
    "C16": "postconditions: monotonicity and projected-gradient Cauchy decrease reference",
    "C17": "component contract vs interval-violation reference (exhaustive limit patterns for <=2 components)",
    "C18": "invariants at quiescent points of TrustRegion + direct drive of the update rules",
    "C19": "outcome + completed-settings tap vs documented settings table (exhaustive boundary lattice)",
    "C20": "callback log vs evaluation log + rerun-with-stop (bitwise)",
}


def main():
    props = [json.loads(line) for line in open(os.path.join(ROOT, "properties.jsonl"))]
    na_path = os.path.join(ROOT, "tools", "not_applicable.json")
    na = json.load(open(na_path)) if os.path.exists(na_path) else {}
    checks = []
    not_app = []
    for p in props:
        pid = p["id"]
        path = os.path.join(ROOT, "checks", pid.lower() + ".py")
        if not os.path.exists(path) or pid in na:
            not_app.append({"property_id": pid, "reason": na.get(
                pid, "check not built yet (work in progress); see DESIGN.md section 4")})
            continue
        mod = importlib.import_module("checks." + pid.lower())
        level = getattr(mod, "LEVEL", "exploration")
        checks.append({
            "property_id": pid,
            "quick_cmd": f"./check {pid} quick",
            "thorough_cmd": f"./check {pid} thorough",
            "evidence_file": f"/verif/evidence/{pid}.json",
            "replay_cmd_template": "./check --replay {path}",
            "engine": "vlib",
            "level_claimed": {
                "category": level,
                "text": ("Runtime monitoring: held on the executions "
                         "produced by this run (see evidence coverage); "
                         "not a proof. " + getattr(mod, "RULE", ""))[:1500],
                "design_ref": f"DESIGN.md section 4, {pid}",
            },
            "level_note": "; ".join(getattr(mod, "ASSUMPTIONS", []))[:1500]
            or "numpy/scipy trusted; sampled inputs",
            "technique": TECH.get(pid, "runtime monitoring"),
        })
    man = {
        "version": 1,
        "setup_cmd": "./setup.sh",
        "hooks": {
            "guard": "COBYQA_VERIF",
            "enable": "none needed: all observation points are wrapped from the harness by setattr (vlib/taps.py); the guard name is reserved and no source hook is committed",
            "baseline_off_cmd": "cd /repo && /venv/bin/python -m pytest -ra -q -p no:cacheprovider --timeout=900 --continue-on-collection-errors",
            "source_commits": [],
            "add_only": True,
        },
        "engines": [{
            "name": "vlib",
            "path": "/verif/vlib",
            "serves_properties": [c["property_id"] for c in checks],
            "kind_free_text": "Python runtime-monitoring harness: user-boundary spies, setattr taps on cobyqa internals, offline oracles, reference models, 16 worker subprocesses",
        }],
        "checks": checks,
        "not_applicable": not_app,
        "notes": "All checks: ./check <ID> <quick|thorough>; exit 0 held, 1 VIOLATION, 3 inconclusive (monitor not reached). VERIF_SEED selects the workload seed. Known findings in /verif/known_findings.json.",
    }
    with open(os.path.join(ROOT, "MANIFEST.json"), "w") as fh:
        json.dump(man, fh, indent=1)
    print("checks:", [c["property_id"] for c in checks])
    print("not_applicable:", [c["property_id"] for c in not_app])


if __name__ == "__main__":
    main()
