#!/bin/bash
# usage: tools/rebase_seeded.sh <seeded id> ...
# Re-creates seeded/<id>/patch.diff against the CURRENT /repo tree with a
# 3-way merge in a scratch worktree (the original is kept as patch.orig.diff).
cd "$(dirname "$0")/.."
for id in "$@"; do
  wt=/tmp/rebase-$id
  git -C /repo worktree add -q --detach $wt || continue
  if git -C $wt apply --3way "$PWD/seeded/$id/patch.diff" 2>/tmp/rebase-$id.err; then
    if git -C $wt diff --quiet HEAD; then echo "$id EMPTY (already in tree?)";
    else
      [ -f seeded/$id/patch.orig.diff ] || cp seeded/$id/patch.diff seeded/$id/patch.orig.diff
      git -C $wt diff HEAD > seeded/$id/patch.diff
      echo "$id REBASED"
    fi
  else
    echo "$id CONFLICT: $(tail -2 /tmp/rebase-$id.err | tr '\n' ' ')"
  fi
  git -C /repo worktree remove --force $wt
  rm -f /tmp/rebase-$id.err
done
