#!/venv/bin/python
"""Apply a patch to a scratch copy of /repo (outside /repo and /verif), run the
repository's own test suite there, run the given checks against the copy
(VERIF_REPO), report caught / missed, and delete the copy.

usage: tools/try_mutant.py <patch.diff> [--tier quick] [--seed 0] [--demo demo.py] C01 C02 ...
"""
import argparse
import os
import shutil
import subprocess
import sys
import tempfile
import time

ROOT = os.path.dirname(os.path.dirname(os.path.abspath(__file__)))


def main():
    ap = argparse.ArgumentParser()
    ap.add_argument("patch")
    ap.add_argument("checks", nargs="*")
    ap.add_argument("--tier", default="quick")
    ap.add_argument("--seed", default="0")
    ap.add_argument("--demo")
    ap.add_argument("--skip-tests", action="store_true")
    a = ap.parse_args()
    tmp = tempfile.mkdtemp(prefix="mutant-", dir="/tmp")
    dst = os.path.join(tmp, "repo")
    try:
        subprocess.run(["rsync", "-a", "--exclude", ".git", "--exclude",
                        "__pycache__", "/repo/", dst + "/"], check=True)
        r = subprocess.run(["patch", "-p1", "-s", "-d", dst, "-i",
                            os.path.abspath(a.patch)], capture_output=True,
                           text=True)
        if r.returncode != 0:
            print("PATCH FAILED:", r.stdout[-500:], r.stderr[-500:])
            return 2
        env = dict(os.environ, PYTHONPATH=dst, PYTHONDONTWRITEBYTECODE="1")
        if not a.skip_tests:
            t = subprocess.run(
                ["/venv/bin/python", "-m", "pytest", "-q", "-p",
                 "no:cacheprovider", "-x", "-q"], cwd=dst, env=env,
                capture_output=True, text=True)
            last = t.stdout.strip().splitlines()[-1] if t.stdout.strip() \
                else ""
            print("repo tests on mutant:", "PASS" if t.returncode == 0
                  else "FAIL", "|", last)
            if t.returncode != 0:
                print("  -> mutant FAILS the existing test suite "
                      "(unrealistic)")
        if a.demo:
            d = subprocess.run(["/venv/bin/python", os.path.abspath(a.demo)],
                               env=env, capture_output=True, text=True,
                               cwd=tmp)
            print(f"demo on mutant: exit {d.returncode} "
                  f"{d.stdout.strip()[-200:]}")
            d0 = subprocess.run(["/venv/bin/python", os.path.abspath(a.demo)],
                                env=dict(env, PYTHONPATH="/repo"),
                                capture_output=True, text=True, cwd=tmp)
            print(f"demo on /repo : exit {d0.returncode}")
        caught = []
        for c in a.checks:
            t0 = time.time()
            env2 = dict(os.environ, VERIF_REPO=dst, VERIF_SEED=a.seed)
            # evidence of mutant runs must not overwrite the real evidence
            ev = os.path.join(ROOT, "evidence", f"{c}.json")
            bak = None
            if os.path.exists(ev):
                bak = ev + ".bak"
                shutil.copy(ev, bak)
            p = subprocess.run([os.path.join(ROOT, "check"), c, a.tier],
                               env=env2, capture_output=True, text=True)
            if bak:
                shutil.move(bak, ev)
            lines = [ln for ln in p.stdout.splitlines()
                     if ln.startswith(("  new-violation", "[", "INCONCL"))]
            print(f"{c}: exit {p.returncode} ({time.time() - t0:.0f}s)")
            for ln in lines[:6]:
                print("   ", ln[:220])
            if p.returncode == 1:
                caught.append(c)
        print("CAUGHT BY:", caught if caught else "NONE")
        return 0
    finally:
        shutil.rmtree(tmp, ignore_errors=True)
        rep = os.path.join(ROOT, "evidence", "replays")
        # replays of mutant runs point at a deleted copy: drop them
        for c in a.checks:
            for f in os.listdir(rep) if os.path.isdir(rep) else []:
                if f.startswith(c + "-"):
                    os.remove(os.path.join(rep, f))


if __name__ == "__main__":
    sys.exit(main())
