#!/venv/bin/python
"""Write the prompts of a round of seeding sub-agents.

usage: tools/mkprompts.py <round tag, e.g. r5> <ID> [<ID> ...]

For each property id: /tmp/wt/prop_<ID>.txt (the property text only),
/tmp/wt/prompt_<ID><tag>.txt (task + one-line summaries of the ideas already
stored under seeded/<ID>-*), and a scratch git worktree /tmp/wt/<ID><tag> of
/repo.  The agent gets nothing from /verif.
"""
import glob
import json
import os
import subprocess
import sys

ROOT = os.path.dirname(os.path.dirname(os.path.abspath(__file__)))
TEMPLATE = """You are helping to test a verification harness by writing realistic, subtle bugs ("seeded changes") into a scratch copy of a Python library.

The library is cobyqa (a derivative-free trust-region SQP optimizer, pure Python on numpy/scipy). Your scratch git worktree is at {wt} (a checkout of the library; the package is in {wt}/cobyqa). Work ONLY inside {wt}. Never touch /repo or /verif and do not read anything under /verif.

The semantic property under test is in the file /tmp/wt/prop_{pid}.txt — read it first.

Your job: produce TWO independent source changes (call them A and B). Other people have already tried the ideas listed at the end of this prompt; yours must use DIFFERENT mechanisms and different code locations. Think like a maintainer making a well-meant change that goes subtly wrong: a performance optimisation (caching a value that can go stale, skipping 'redundant' work, vectorising a loop), a clean-up (merging two branches, hoisting a computation, replacing an explicit loop by a numpy idiom with different tie/NaN/empty-array semantics), a 'robustness' tweak (new tolerance, new early return, clipping), or an API-compatibility shim. At least one of A, B must manifest only in a state that an ordinary short run does not reach: late in a long run, after a particular sequence of solver phases (e.g. a geometry step right after a resolution reduction, a second-order correction followed by a model reset, a base-point shift), for particular option/constant combinations, for a fault (NaN/inf/exception) at a particular evaluation, or for degenerate data. Each change
  1. edits only library source files under {wt}/cobyqa (NOT the tests, not setup files);
  2. still imports fine and still passes the library's existing test suite, run as:
        cd {wt} && PYTHONPATH={wt} /venv/bin/python -m pytest -q -p no:cacheprovider -x
     (all tests pass on the unmodified worktree; they must all still pass with your change);
  3. BREAKS the property in the file above (makes the library violate the statement for some input);
  4. is realistic and subtle, and must need something specific to manifest — NOT something that any ordinary call to minimize would expose at once. Use different files / mechanisms for A and B.

For each change X in {{A, B}} deliver a directory {wt}/MUTANT_X containing:
  - patch.diff : output of `git -C {wt} diff` with ONLY change X applied (paths relative to the repo root, so that `git apply patch.diff` works on a clean checkout);
  - demo.py    : a small self-contained program, run as `PYTHONPATH=<root> /venv/bin/python demo.py`, that imports cobyqa from <root>, exercises the library, and exits with status 1 (printing what went wrong) when change X is applied and with status 0 on the unmodified library. It must be deterministic. It should assert `cobyqa.__file__` starts with the intended root so it tests the right copy;
  - meta.json  : {{"property": "{pid}", "title": "...", "what_it_breaks": "...", "needs_to_manifest": "... (the specific input / sequence / fault needed)", "files": [...]}}.

Procedure: make change A, run the test suite, write and run demo.py (must exit 1), save `git diff` to MUTANT_A/patch.diff, then `git -C {wt} checkout -- cobyqa` to undo and verify demo.py now exits 0. Repeat for B. At the end the worktree's cobyqa/ directory must be clean (unmodified), with only the MUTANT_A and MUTANT_B directories added.

If, while probing, you find that the UNMODIFIED library already violates the property for some input, say so in your final answer with the exact reproducing call (that is valuable), but still deliver A and B.

Notes: use /venv/bin/python (Python 3.12 with numpy, scipy, pytest). Always pass PYTHONPATH={wt} so that the worktree copy is imported instead of the installed one (check cobyqa.__file__). There is no network. Read the library source as much as you need (start with cobyqa/main.py, problem.py, framework.py, models.py, subsolvers/). Keep your final answer short: for each of A and B one line saying what it changes and what it needs to manifest.


Ideas already used by others for this property (do NOT repeat these):
{ideas}
"""


def main():
    tag = sys.argv[1]
    os.makedirs("/tmp/wt", exist_ok=True)
    props = {}
    for line in open(os.path.join(ROOT, "properties.jsonl")):
        d = json.loads(line)
        props[d["id"]] = d
    for pid in sys.argv[2:]:
        d = props[pid]
        with open(f"/tmp/wt/prop_{pid}.txt", "w") as f:
            f.write(f"Property {pid}: {d['title']}\n\n{d['statement']}\n\n"
                    f"Quantified over: {d['quantifier']['text']}\n")
        ideas = []
        for m in sorted(glob.glob(os.path.join(ROOT, "seeded", pid + "-*",
                                               "meta.json"))):
            try:
                meta = json.load(open(m))
            except Exception:  # noqa: BLE001
                continue
            files = ", ".join(meta.get("files", []) or [])
            txt = (meta.get("what_it_breaks") or meta.get("title") or "")
            ideas.append(f"- ({files}) {meta.get('title', '')}: "
                         f"{txt[:260]}")
        wt = f"/tmp/wt/{pid}{tag}"
        if not os.path.isdir(wt):
            subprocess.run(["git", "-C", "/repo", "worktree", "add", "-q",
                            "--detach", wt], check=True)
        with open(f"/tmp/wt/prompt_{pid}{tag}.txt", "w") as f:
            f.write(TEMPLATE.format(wt=wt, pid=pid, ideas="\n".join(ideas)))
        print(pid, wt, len(ideas), "ideas")


if __name__ == "__main__":
    main()
