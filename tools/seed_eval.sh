#!/bin/bash
# usage: tools/seed_eval.sh <mutant dir> <seeded id> <check> [<check>...]
# Confirms the seeded change (tests pass, demo fails with it / passes without),
# runs the given checks against a scratch copy with the change applied, and
# stores patch.diff, demo.py, meta.json (+ result.txt) under /verif/seeded/<id>.
set -u
src="$1"; id="$2"; shift 2
cd "$(dirname "$0")/.."
dst="seeded/$id"
mkdir -p "$dst"
cp "$src/patch.diff" "$src/demo.py" "$dst/"
out=$(tools/try_mutant.py --demo "$dst/demo.py" "$dst/patch.diff" "$@" 2>&1)
echo "$out" | tee "$dst/result.txt"
/venv/bin/python - "$src/meta.json" "$dst/meta.json" "$id" "$*" <<'PY'
import json, sys, re
src, dst, sid, checks = sys.argv[1:5]
try:
    meta = json.load(open(src))
except Exception:
    meta = {}
res = open(dst.replace("meta.json", "result.txt")).read()
meta["seeded_id"] = sid
meta["checks_run"] = checks.split()
m = re.search(r"CAUGHT BY: (.*)", res)
meta["caught_by"] = m.group(1) if m else None
meta["tests_pass_with_change"] = "repo tests on mutant: PASS" in res
meta["demo_fails_with_change"] = "demo on mutant: exit 1" in res
meta["demo_passes_without"] = "demo on /repo : exit 0" in res
meta["what_i_ran"] = "tools/try_mutant.py --demo demo.py patch.diff " + checks + " (scratch copy of /repo with the patch applied, repo test suite, demo on both trees, quick tier of the checks with VERIF_REPO pointing at the copy)"
json.dump(meta, open(dst, "w"), indent=1)
print("->", {k: meta[k] for k in ("caught_by", "tests_pass_with_change", "demo_fails_with_change", "demo_passes_without")})
PY
