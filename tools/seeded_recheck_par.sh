#!/bin/bash
# usage: tools/seeded_recheck_par.sh
# tools/seeded_recheck.sh for every stored seeded change, in four parallel
# streams that never run the same check at the same time (each stream owns
# five check ids; the evidence backup of try_mutant.py is per check).
cd "$(dirname "$0")/.."
out=$(mktemp -d)
for g in "C01 C05 C09 C13 C17" "C02 C06 C10 C14 C18" "C03 C07 C11 C15 C19" "C04 C08 C12 C16 C20"; do
  ( ids=""; for c in $g; do ids="$ids $(ls seeded | grep -E "^$c-[A-Z]$" | tr '\n' ' ')"; done
    tools/seeded_recheck.sh $ids > "$out/$(echo $g | cut -c1-3).txt" 2>&1 ) &
done
wait
cat "$out"/*.txt | grep -E "^C[0-9]+-[A-Z] " | sort
rm -rf "$out"
